SPECIFICATION Spec
CONSTANTS
  MaxL = 12
INVARIANT SliceInside NoNegative WholeSuffix EmptyFile Backwards
CHECK_DEADLOCK FALSE
