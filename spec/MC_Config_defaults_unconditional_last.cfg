SPECIFICATION Spec
CONSTANTS
  Order = "defaults_unconditional_last"
INVARIANT C12
CHECK_DEADLOCK FALSE
