SPECIFICATION GSpec
CONSTANTS
  Depth = 1
INVARIANT Emit
CHECK_DEADLOCK FALSE
