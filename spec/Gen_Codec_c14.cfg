SPECIFICATION Spec
CONSTANTS
  Mode = "c14"
INVARIANT Emit
CHECK_DEADLOCK FALSE
