SPECIFICATION TSpec
CONSTANTS
  Props = {"C02"}
INVARIANT Done
POSTCONDITION AllConsumed
CHECK_DEADLOCK FALSE
