SPECIFICATION Spec
CONSTANTS
  Full = FALSE
INVARIANT Emit
CHECK_DEADLOCK FALSE
