SPECIFICATION Spec
CONSTANTS
  Impl = TRUE
INVARIANT NoOriginNoGrant ExactMembership
CHECK_DEADLOCK FALSE
