------------------------------- MODULE Bytes -------------------------------
(***************************************************************************)
(* Text and binary data are modelled as sequences of byte values 0..255    *)
(* (TLC strings are opaque: only =, Len and \o are usable on them).         *)
(* This module gives the byte-level vocabulary the rest of the rws          *)
(* specification is written in: ASCII classes, case folding, decimal        *)
(* numbers, searching, splitting and trimming.  All operators that walk a   *)
(* sequence are written position-wise (no deep recursion) wherever the      *)
(* sequence can be long.                                                    *)
(***************************************************************************)
EXTENDS Naturals, Sequences, FiniteSets

Byte == 0..255

CR  == 13
LF  == 10
SP  == 32
HT  == 9
NUL == 0
COLON == 58
COMMA == 44
HYPHEN == 45
SLASH == 47
EQUALS == 61
SEMI == 59
DQUOTE == 34

IsDigit(b)  == b \in 48..57
IsUpper(b)  == b \in 65..90
IsLower(b)  == b \in 97..122
IsAlpha(b)  == IsUpper(b) \/ IsLower(b)
IsCtl(b)    == b < 32 \/ b = 127
IsWs(b)     == b \in {SP, HT, CR, LF, 11, 12}

\* RFC 9110 tchar: "!" / "#" / "$" / "%" / "&" / "'" / "*" / "+" / "-" / "." / "^" / "_" / "`" / "|" / "~" / DIGIT / ALPHA
IsTchar(b)  == IsDigit(b) \/ IsAlpha(b) \/ b \in {33, 35, 36, 37, 38, 39, 42, 43, 45, 46, 94, 95, 96, 124, 126}

LowerB(b)   == IF IsUpper(b) THEN b + 32 ELSE b
Lower(s)    == [i \in 1..Len(s) |-> LowerB(s[i])]
EqIgnoreCase(s, t) == Len(s) = Len(t) /\ \A i \in 1..Len(s) : LowerB(s[i]) = LowerB(t[i])

IsByteSeq(s) == \A i \in 1..Len(s) : s[i] \in Byte

\* t occurs in s starting at position i (1-based)
MatchAt(s, t, i) == i >= 1 /\ i + Len(t) - 1 <= Len(s) /\ \A k \in 1..Len(t) : s[i + k - 1] = t[k]
StartsWith(s, t) == MatchAt(s, t, 1)
EndsWith(s, t)   == Len(t) <= Len(s) /\ MatchAt(s, t, Len(s) - Len(t) + 1)
Occurs(s, t)     == \E i \in 1..(Len(s) + 1) : MatchAt(s, t, i)
\* first position >= from at which t occurs in s, 0 when there is none
FindFrom(s, t, from) ==
    LET P == {i \in from..(Len(s) - Len(t) + 1) : MatchAt(s, t, i)}
    IN IF P = {} THEN 0 ELSE CHOOSE i \in P : \A j \in P : i <= j
Find(s, t) == FindFrom(s, t, 1)
\* all (possibly overlapping) positions of t in s, as a set
Positions(s, t) == {i \in 1..(Len(s) - Len(t) + 1) : MatchAt(s, t, i)}

Sub(s, a, b) == IF a > b THEN <<>> ELSE SubSeq(s, a, b)
Drop(s, n)   == Sub(s, n + 1, Len(s))
Take(s, n)   == Sub(s, 1, IF n < Len(s) THEN n ELSE Len(s))

HasByte(s, b) == \E i \in 1..Len(s) : s[i] = b
ByteSet(s)    == {s[i] : i \in 1..Len(s)}
CountByte(s, b) == Cardinality({i \in 1..Len(s) : s[i] = b})

\* strip leading / trailing optional white space (SP, HT)
TrimOws(s) ==
    LET keep == {i \in 1..Len(s) : s[i] \notin {SP, HT}}
    IN IF keep = {} THEN <<>>
       ELSE LET lo == CHOOSE i \in keep : \A j \in keep : i <= j
                hi == CHOOSE i \in keep : \A j \in keep : i >= j
            IN SubSeq(s, lo, hi)

\* decimal text -> number; only for values that fit TLC's 32-bit integers (callers guard on length)
IsDecimal(s) == Len(s) >= 1 /\ \A i \in 1..Len(s) : IsDigit(s[i])
RECURSIVE DecVal(_)
DecVal(s) == IF s = <<>> THEN 0 ELSE DecVal(SubSeq(s, 1, Len(s) - 1)) * 10 + (s[Len(s)] - 48)
SmallDecimal(s) == IsDecimal(s) /\ Len(s) <= 9
\* number -> canonical decimal text
RECURSIVE DecText(_)
DecText(n) == IF n < 10 THEN <<48 + n>> ELSE Append(DecText(n \div 10), 48 + (n % 10))

\* split s at every occurrence of the single byte b (like str::split): k separators give k+1 fields
SplitByte(s, b) ==
    LET seps == {i \in 1..Len(s) : s[i] = b}
        n    == Cardinality(seps)
        \* position of the k-th separator (k = 1..n), 0 for k = 0, Len+1 for k = n+1
        SepPos(k) == IF k = 0 THEN 0
                     ELSE IF k = n + 1 THEN Len(s) + 1
                     ELSE CHOOSE i \in seps : Cardinality({j \in seps : j < i}) = k - 1
    IN [k \in 1..(n + 1) |-> Sub(s, SepPos(k - 1) + 1, SepPos(k) - 1)]

\* split at every non-overlapping occurrence (left to right) of the multi-byte separator t
RECURSIVE SplitOnFrom(_, _, _)
SplitOnFrom(s, t, from) ==
    LET p == FindFrom(s, t, from)
    IN IF p = 0 THEN <<Sub(s, from, Len(s))>>
       ELSE <<Sub(s, from, p - 1)>> \o SplitOnFrom(s, t, p + Len(t))
SplitOn(s, t) == SplitOnFrom(s, t, 1)

\* concatenate a sequence of byte strings with a separator
RECURSIVE Join(_, _)
Join(parts, sep) == IF parts = <<>> THEN <<>>
                    ELSE IF Len(parts) = 1 THEN parts[1]
                    ELSE parts[1] \o sep \o Join(Tail(parts), sep)

\* UTF-8 well-formedness (RFC 3629) as a position-wise predicate
Utf8Lead(b) == IF b < 128 THEN 1
               ELSE IF b \in 194..223 THEN 2
               ELSE IF b \in 224..239 THEN 3
               ELSE IF b \in 240..244 THEN 4
               ELSE 0
IsCont(b) == b \in 128..191
RECURSIVE Utf8From(_, _)
Utf8From(s, i) ==
    IF i > Len(s) THEN TRUE
    ELSE LET n == Utf8Lead(s[i]) IN
         /\ n > 0
         /\ i + n - 1 <= Len(s)
         /\ \A k \in 1..(n - 1) : IsCont(s[i + k])
         /\ (s[i] = 224 => s[i + 1] >= 160)
         /\ (s[i] = 237 => s[i + 1] <= 159)
         /\ (s[i] = 240 => s[i + 1] >= 144)
         /\ (s[i] = 244 => s[i + 1] <= 143)
         /\ Utf8From(s, i + n)
IsUtf8(s) == Utf8From(s, 1)

=============================================================================
