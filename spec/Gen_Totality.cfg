SPECIFICATION GSpec
CONSTANTS
  NSeeds = 2
INVARIANT Emit
CHECK_DEADLOCK FALSE
