SPECIFICATION TSpec
CONSTANTS
  Props = {"C11"}
INVARIANT Done
POSTCONDITION AllConsumed
CHECK_DEADLOCK FALSE
