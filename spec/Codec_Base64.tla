---------------------------- MODULE Codec_Base64 ----------------------------
(***************************************************************************)
(* RFC 4648 section 4 ("base64", standard alphabet, '=' padding) written   *)
(* as arithmetic on byte values.  Enc is defined position-wise, so it can  *)
(* be evaluated on inputs of any length without recursion.                  *)
(*                                                                         *)
(* C18: Enc is what Base64::encode must return, Dec(Enc(x)) = x is what    *)
(* decode must return on that text, and text containing a character        *)
(* outside Alphabet \cup {Pad} must be reported as an error.               *)
(***************************************************************************)
EXTENDS Naturals, Sequences, Bytes

Pad == 61                                  \* '='

\* the 64-character alphabet, index 0..63 -> character code
Alpha(i) == IF i < 26 THEN 65 + i                 \* A-Z
            ELSE IF i < 52 THEN 97 + (i - 26)     \* a-z
            ELSE IF i < 62 THEN 48 + (i - 52)     \* 0-9
            ELSE IF i = 62 THEN 43 ELSE 47        \* + /
AlphaSet == {Alpha(i) : i \in 0..63}
\* inverse of Alpha on AlphaSet
Sextet(c) == IF c \in 65..90 THEN c - 65
             ELSE IF c \in 97..122 THEN c - 97 + 26
             ELSE IF c \in 48..57 THEN c - 48 + 52
             ELSE IF c = 43 THEN 62 ELSE 63

\* the four sextets of the 24-bit group a b c (missing bytes are taken as 0)
S1(a)    == a \div 4
S2(a, b) == (a % 4) * 16 + b \div 16
S3(b, c) == (b % 16) * 4 + c \div 64
S4(c)    == c % 64

\* the same four numbers obtained from the 24-bit integer, as RFC 4648 describes them
N24(a, b, c) == a * 65536 + b * 256 + c
T1(n) == n \div 262144
T2(n) == (n \div 4096) % 64
T3(n) == (n \div 64) % 64
T4(n) == n % 64

\* encoding of one group of 1..3 bytes
EncGroup(g) ==
    LET a == g[1]
        b == IF Len(g) >= 2 THEN g[2] ELSE 0
        c == IF Len(g) >= 3 THEN g[3] ELSE 0
    IN << Alpha(S1(a)), Alpha(S2(a, b)),
          IF Len(g) >= 2 THEN Alpha(S3(b, c)) ELSE Pad,
          IF Len(g) >= 3 THEN Alpha(S4(c)) ELSE Pad >>

\* position-wise encoder: character i of the output belongs to group (i-1) \div 4
Enc(s) ==
    LET n == Len(s)
        G == (n + 2) \div 3
        At(k) == IF k <= n THEN s[k] ELSE 0
    IN [i \in 1..(4 * G) |->
          LET g == (i - 1) \div 4
              k == (i - 1) % 4
              a == At(3 * g + 1)  b == At(3 * g + 2)  c == At(3 * g + 3)
          IN CASE k = 0 -> Alpha(S1(a))
               [] k = 1 -> Alpha(S2(a, b))
               [] k = 2 -> IF 3 * g + 2 <= n THEN Alpha(S3(b, c)) ELSE Pad
               [] k = 3 -> IF 3 * g + 3 <= n THEN Alpha(S4(c)) ELSE Pad]

\* canonical text: length multiple of 4, alphabet only, padding only at the very end (1 or 2)
PadCount(t) == IF Len(t) >= 2 /\ t[Len(t)] = Pad /\ t[Len(t) - 1] = Pad THEN 2
               ELSE IF Len(t) >= 1 /\ t[Len(t)] = Pad THEN 1 ELSE 0
WellFormedText(t) ==
    /\ Len(t) % 4 = 0
    /\ \A i \in 1..(Len(t) - PadCount(t)) : t[i] \in AlphaSet

\* position-wise decoder for well-formed text
Dec(t) ==
    LET G == Len(t) \div 4
        n == 3 * G - PadCount(t)
        V(k) == IF t[k] = Pad THEN 0 ELSE Sextet(t[k])
    IN [j \in 1..n |->
          LET g == (j - 1) \div 3
              k == (j - 1) % 3
              v1 == V(4 * g + 1)  v2 == V(4 * g + 2)  v3 == V(4 * g + 3)  v4 == V(4 * g + 4)
          IN CASE k = 0 -> v1 * 4 + v2 \div 16
               [] k = 1 -> (v2 % 16) * 16 + v3 \div 4
               [] k = 2 -> (v3 % 4) * 64 + v4]

\* a character the decoder must reject
Foreign(c) == c \notin AlphaSet /\ c # Pad
HasForeign(t) == \E i \in 1..Len(t) : Foreign(t[i])

-----------------------------------------------------------------------------
(* Functional-dependency tables for the exhaustive sweep over all 2^24      *)
(* three-byte groups and all 64^4 four-character groups.  Character k of    *)
(* the encoding of <<a, b, c>> depends on at most two neighbouring bytes,   *)
(* byte k of the decoding of <<c1, c2, c3, c4>> on two neighbouring         *)
(* characters.  The harness records, for every key (x, y), the SET of       *)
(* values it saw at that position while the remaining coordinates ran over  *)
(* all their values; the implementation is right on all 16.8 M inputs iff   *)
(* every recorded set is the singleton below (and nothing failed).          *)
EncCharAt(k, x, y) == CASE k = 1 -> Alpha(S1(x))          \* key (a, -)
                        [] k = 2 -> Alpha(S2(x, y))       \* key (a, b)
                        [] k = 3 -> Alpha(S3(x, y))       \* key (b, c)
                        [] k = 4 -> Alpha(S4(y))          \* key (-, c)
DecByteAt(k, x, y) == CASE k = 1 -> Sextet(x) * 4 + Sextet(y) \div 16          \* key (c1, c2)
                        [] k = 2 -> (Sextet(x) % 16) * 16 + Sextet(y) \div 4   \* key (c2, c3)
                        [] k = 3 -> (Sextet(x) % 4) * 64 + Sextet(y)           \* key (c3, c4)
\* the tables are the position-wise definitions, group by group
TablesAgreeOn(a, b, c) ==
    LET t == Enc(<<a, b, c>>) IN
      /\ t = <<EncCharAt(1, a, 0), EncCharAt(2, a, b), EncCharAt(3, b, c), EncCharAt(4, 0, c)>>
      /\ Dec(t) = <<DecByteAt(1, t[1], t[2]), DecByteAt(2, t[2], t[3]), DecByteAt(3, t[3], t[4])>>

\* a sweep record: [dir, k, x, y, seen (set of values at position k), lens (set of result lengths),
\*                  bad (number of calls under this key that did not return a value)]
SweepPermitted(r) ==
    /\ r.bad = 0
    /\ IF r.dir = "enc" THEN r.lens = {4} /\ r.seen = {EncCharAt(r.k, r.x, r.y)}
                        ELSE r.lens = {3} /\ r.seen = {DecByteAt(r.k, r.x, r.y)}

-----------------------------------------------------------------------------
(* The observable behaviour of the two library calls.  obs is a record      *)
(*   [ok |-> BOOLEAN, err |-> BOOLEAN, val |-> Seq(Byte)]                   *)
(* ok: a value was returned; err: an error was reported; neither: the call  *)
(* crashed (panic), which no clause permits where an answer is prescribed.  *)

EncodePermitted(input, obs)  == obs.ok /\ obs.val = Enc(input)
DecodePermitted(text, obs) ==
    IF HasForeign(text) THEN obs.err                   \* must be reported as an error
    ELSE IF WellFormedText(text) /\ Enc(Dec(text)) = text
         THEN obs.ok /\ obs.val = Dec(text)             \* canonical text: must decode to exactly this
         ELSE TRUE                                      \* misplaced padding etc.: C18 is silent (C20 forbids a crash)

=============================================================================
