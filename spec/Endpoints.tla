------------------------------ MODULE Endpoints ------------------------------
(***************************************************************************)
(* The four dynamic endpoints of the server (upload announcement, the two  *)
(* form echoes, the multipart echo) as ONE function from an abstract       *)
(* request to the answer, in the order App::execute consults them          *)
(* (src/app/mod.rs: file-upload, form-url, form-get, form-multipart; the   *)
(* asset controllers before them never match these paths).                 *)
(*                                                                         *)
(* The listed properties leave most of this free (C17 only demands that    *)
(* the echoed fields are the submitted ones); this module pins the rest to *)
(* what the code does.  Its clauses are named E.* and are reported as      *)
(* notes in the evidence, never as violations of a property.               *)
(*                                                                         *)
(* Deliberate deviations of the code, named rather than idealised:         *)
(*  - form-url compares the WHOLE request target and the WHOLE lower-cased *)
(*    Content-Type: a query string or a "; charset" parameter sends the    *)
(*    request on to the static lookup (404);                               *)
(*  - form-multipart wants the lower-cased Content-Type to START with      *)
(*    "multipart/form-data; boundary=" (exactly one blank);                *)
(*  - upload and form-get look at the path only (any query);               *)
(*  - the announcement needs all of name, lastModified, size, else 400     *)
(*    with an empty body; its answer ends with the buffer size line        *)
(*    (allocation - 4000 when the allocation is larger than 4000);         *)
(*  - echo lines come in the iteration order of a hash map (any order);    *)
(*    the multipart echo keeps the order of the parts and writes a blank   *)
(*    before the line break.                                               *)
(* Texts are TLA+ strings (ASCII in this generator; the hard characters    *)
(* are C17's business); a body is observed as its CRLF-terminated lines.   *)
(***************************************************************************)
EXTENDS Naturals, Sequences, FiniteSets, TLC

PathClasses == {"upload", "form_url", "form_get", "form_multi"}
PathVariants == {"exact", "trailing_slash", "upper", "extended"}      \* only "exact" is the endpoint
CtypeClasses == {"none", "form_exact", "form_upper", "form_param", "multi", "multi_upper", "multi_two_blanks", "multi_no_boundary", "other"}

\* q: [method, pcls, pvar, query: [p, pairs], ctype, form: pairs, parts: Seq([named, name, body]), alloc]
Kind(q) ==
    IF q.pvar # "exact" THEN "other"
    ELSE IF q.method = "POST" /\ q.pcls = "upload" THEN "upload"
    ELSE IF q.method = "POST" /\ q.pcls = "form_url" /\ ~q.query.p /\ q.ctype \in {"form_exact", "form_upper"} THEN "form_url"
    ELSE IF q.method = "GET" /\ q.pcls = "form_get" THEN "form_get"
    ELSE IF q.method = "POST" /\ q.pcls = "form_multi" /\ q.ctype \in {"multi", "multi_upper"} THEN "form_multi"
    ELSE "other"

Line(k, v) == k \o " is " \o v
Keys(pairs) == {pairs[i][1] : i \in DOMAIN pairs}
LineSet(pairs) == {Line(pairs[i][1], pairs[i][2]) : i \in DOMAIN pairs}
Range(s) == {s[i] : i \in DOMAIN s}
\* the lines of r are exactly these, each once, in any order
AnyOrder(r, lines) == Len(r.lines) = Cardinality(lines) /\ Range(r.lines) = lines

AllocLine(q) == Line("request_allocation_size_in_bytes", ToString(IF q.alloc > 4000 THEN q.alloc - 4000 ELSE q.alloc))

StatusIs(r, s, name) == IF r.status = s THEN {} ELSE {name}
Plain(r, name) == IF r.lines = <<>> \/ r.ctype = "text/plain" THEN {} ELSE {name}

EndpointNotes(q, r) ==
    LET k == Kind(q) IN
    CASE k = "upload" ->
           IF {"name", "lastModified", "size"} \subseteq (IF q.query.p THEN Keys(q.query.pairs) ELSE {})
           THEN StatusIs(r, 200, "E.upload_status")
                \cup (IF r.status = 200 /\ ~(/\ Len(r.lines) = Len(q.query.pairs) + 1
                                             /\ r.lines[Len(r.lines)] = AllocLine(q)
                                             /\ Range(SubSeq(r.lines, 1, Len(r.lines) - 1)) = LineSet(q.query.pairs))
                      THEN {"E.upload_answer"} ELSE {})
                \cup Plain(r, "E.upload_content_type")
           ELSE StatusIs(r, 400, "E.upload_incomplete_not_400") \cup (IF r.status = 400 /\ r.lines # <<>> THEN {"E.upload_400_with_body"} ELSE {})
      [] k = "form_get" ->
           StatusIs(r, 200, "E.form_get_status")
           \cup (IF r.status = 200 /\ ~AnyOrder(r, IF q.query.p THEN LineSet(q.query.pairs) ELSE {}) THEN {"E.form_get_echo"} ELSE {})
           \cup Plain(r, "E.form_get_content_type")
      [] k = "form_url" ->
           StatusIs(r, 200, "E.form_url_status")
           \cup (IF r.status = 200 /\ ~AnyOrder(r, LineSet(q.form)) THEN {"E.form_url_echo"} ELSE {})
           \cup Plain(r, "E.form_url_content_type")
      [] k = "form_multi" ->
           IF \A i \in DOMAIN q.parts : q.parts[i].named
           THEN StatusIs(r, 200, "E.form_multi_status")
                \cup (IF r.status = 200 /\ r.lines # [i \in DOMAIN q.parts |-> Line(q.parts[i].name, q.parts[i].body) \o " "] THEN {"E.form_multi_echo"} ELSE {})
                \cup Plain(r, "E.form_multi_content_type")
           ELSE StatusIs(r, 400, "E.form_multi_unnamed_part_not_400")
      [] OTHER -> \* not an endpoint: the static lookup answers; nothing of that name exists in the harness's empty root
           IF r.status \in {404, 200} /\ q.method \in {"GET", "POST", "HEAD", "PUT"} THEN
                (IF r.status = 200 /\ q.pvar # "exact" THEN {"E.near_miss_path_served_as_endpoint"} ELSE {})
                \cup (IF r.status = 200 /\ q.pvar = "exact" THEN {"E.endpoint_answers_outside_its_dispatch_rule"} ELSE {})
           ELSE {}

=============================================================================
