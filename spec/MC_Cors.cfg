SPECIFICATION Spec
CONSTANTS
  Impl = FALSE
INVARIANT NoOriginNoGrant ExactMembership
CHECK_DEADLOCK FALSE
