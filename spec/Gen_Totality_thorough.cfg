SPECIFICATION GSpec
CONSTANTS
  NSeeds = 4
INVARIANT Emit
CHECK_DEADLOCK FALSE
