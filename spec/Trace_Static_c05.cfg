SPECIFICATION TSpec
CONSTANTS
  Props = {"C05"}
INVARIANT Done
POSTCONDITION AllConsumed
CHECK_DEADLOCK FALSE
