SPECIFICATION Spec
CONSTANTS
  Mode = "c09"
  K = 2
INVARIANT Emit
CHECK_DEADLOCK FALSE
