SPECIFICATION Spec
CONSTANTS
  Mode = "c15"
INVARIANT Emit
CHECK_DEADLOCK FALSE
