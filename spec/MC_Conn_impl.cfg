SPECIFICATION Spec
CONSTANTS
  ImplSingleWrite = TRUE
  MaxLen = 6
INVARIANT DeliveredInFull OkMeansDelivered
CONSTRAINT Bounded
CHECK_DEADLOCK FALSE
