SPECIFICATION Spec
CONSTANTS
  ImplSingleWrite = TRUE
  MaxLen = 6
INVARIANT DeliveredInFull OkMeansDelivered
CHECK_DEADLOCK FALSE
