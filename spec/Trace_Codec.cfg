SPECIFICATION TSpec
INVARIANT Done
POSTCONDITION AllConsumed
CHECK_DEADLOCK FALSE
