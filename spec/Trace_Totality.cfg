SPECIFICATION TSpec
INVARIANT Done C20
POSTCONDITION AllConsumed
CHECK_DEADLOCK FALSE
