------------------------------- MODULE Worlds -------------------------------
(***************************************************************************)
(* The menu of file trees (worlds, see Fs) the generators draw from.       *)
(* Every directory of a generated world holds an entry whose name contains  *)
(* the listing marker "zqzq" (Static!ListingMarker), so that a directory    *)
(* listing in a response body is recognisable.                              *)
(***************************************************************************)
EXTENDS Naturals, Sequences, Fs

Dn(p, name) == [parent |-> p, name |-> name, kind |-> "dir", abs |-> FALSE, tsegs |-> <<>>,
               len |-> 0, key |-> 0, cls |-> "none", ext |-> "", extl |-> "", stem |-> ""]
Fn(p, name, len, key, cls, ext, extl, stem) ==
              [parent |-> p, name |-> name, kind |-> "file", abs |-> FALSE, tsegs |-> <<>>,
               len |-> len, key |-> key, cls |-> cls, ext |-> ext, extl |-> extl, stem |-> stem]
Ln(p, name, abs, tsegs) ==
              [parent |-> p, name |-> name, kind |-> "link", abs |-> abs, tsegs |-> tsegs,
               len |-> 0, key |-> 0, cls |-> "none", ext |-> "", extl |-> "", stem |-> ""]
Secret(p, name, key) == Fn(p, name, 40, key, "secret", "", "", "")
Ascii(p, name, len, key, ext) == Fn(p, name, len, key, "ascii", ext, ext, "")

-----------------------------------------------------------------------------
(* C01 worlds: the served root at depth 1..3 below the top, a uniquely      *)
(* marked secret at every ancestor level and in a sibling directory, and    *)
(* one of four link shapes inside the root.                                 *)
(*   shape 0: no link          1: root/up  -> an outside FILE (exemption)    *)
(*   shape 2: root/upd -> an outside DIRECTORY (exemption for what is below) *)
(*   shape 3: root/in  -> a file inside                                      *)

\* the chain top / l1 / l2 ... down to the root's parent; returns the node list and the id of the root's parent
Chain(depth) ==
    CASE depth = 1 -> [nodes |-> <<Dn(1, "top"), Secret(1, "s0", 0)>>, par |-> 1]
      [] depth = 2 -> [nodes |-> <<Dn(1, "top"), Secret(1, "s0", 0), Dn(1, "l1"), Secret(3, "s1", 1)>>, par |-> 3]
      [] depth = 3 -> [nodes |-> <<Dn(1, "top"), Secret(1, "s0", 0), Dn(1, "l1"), Secret(3, "s1", 1),
                                   Dn(3, "l2"), Secret(5, "s2", 2)>>, par |-> 5]

C01World(id, depth, shape) ==
    LET c == Chain(depth)
        base == Len(c.nodes)
        par == c.par
        root == base + 1
        common == << Dn(par, "root"),                         \* base+1
                     Ascii(root, "f.txt", 33, 5, "txt"),     \* base+2
                     Dn(root, "d"),                           \* base+3
                     Ascii(base + 3, "g.txt", 21, 9, "txt"), \* base+4
                     Ascii(base + 3, "index.html", 64, 11, "html"),   \* base+5
                     Dn(par, "o"),                            \* base+6   sibling of the root: outside
                     Secret(base + 6, "s3", 3),              \* base+7
                     Ascii(root, "zqzq.txt", 5, 1, "txt"),   \* base+8
                     Ascii(base + 3, "zqzq.txt", 5, 2, "txt"), \* base+9
                     Secret(par, "f.txt", 4),                \* base+10  an outside file with an inside file's name
                     \* siblings whose NAMES extend the root's name: a containment test on path strings instead of path
                     \* components takes them for descendants of the root
                     Dn(par, "root-private"),                 \* base+11
                     Secret(base + 11, "s4", 5),             \* base+12
                     Secret(par, "root.bak", 6),             \* base+13
                     \* names INSIDE the root that contain the dot-dot token without being it: a parent-segment test that
                     \* looks for the token instead of comparing whole segments takes them for "..", or stops looking after them
                     Dn(root, "..data"),                      \* base+14
                     Ascii(base + 14, "zqzq.txt", 5, 3, "txt"),   \* base+15
                     Dn(root, "v1..v2"),                      \* base+16
                     Ascii(base + 16, "zqzq.txt", 5, 4, "txt"),   \* base+17
                     Dn(root, "..."),                         \* base+18
                     Ascii(base + 18, "zqzq.txt", 5, 6, "txt"),   \* base+19
                     Dn(base + 3, "a.."),                     \* base+20  (inside d)
                     Ascii(base + 20, "zqzq.txt", 5, 7, "txt") >> \* base+21
        \* the name of the secret that sits next to the root (level of the root's parent)
        near == IF depth = 1 THEN "s0" ELSE IF depth = 2 THEN "s1" ELSE "s2"
        link == CASE shape = 0 -> <<>>
                  [] shape = 1 -> << Ln(root, "up", FALSE, <<"..", near>>) >>
                  [] shape = 2 -> << Ln(root, "upd", FALSE, <<"..", "o">>) >>
                  [] shape = 3 -> << Ln(root, "in", FALSE, <<"f.txt">>) >>
    IN [id |-> id, root |-> root, nodes |-> c.nodes \o common \o link, ascii |-> TRUE]

C01Worlds == { C01World((d - 1) * 4 + s + 1, d, s) : d \in 1..3, s \in 0..3 }

\* segment alphabet of C01 targets
C01Tok == {"..", ".", "", "d", "f.txt", "nx", "%2e%2e", "%2E%2E", "..%2f", "s0", "s1", "s2", "s3", "o", "up", "upd",
           "root", "l2", "index.html"}

-----------------------------------------------------------------------------
(* C02 worlds: nested directories, empty files, binary content containing   *)
(* every byte value, sizes around the request buffer (10 000) and I/O block *)
(* (8 192) boundaries, names with several dots / no extension / upper case, *)
(* symbolic links to files and directories, directories without an index.  *)

Pn(p, name, len, key, ext, extl, stem) == Fn(p, name, len, key, "pat", ext, extl, stem)

MixWorld(id, with404) ==
    LET r == 2 IN
    [id |-> id, root |-> r, ascii |-> FALSE, nodes |-> <<
        Dn(1, "top"),                                        \* 1
        Dn(1, "site"),                                       \* 2  root
        Pn(r, "index.html", 300, 3, "html", "html", "index"),        \* 3
        Pn(r, "a.txt", 0, 0, "txt", "txt", ""),              \* 4  empty file
        Pn(r, "b.bin", 256, 7, "bin", "bin", ""),            \* 5  every byte value
        Pn(r, "c.tar.gz", 1, 200, "gz", "gz", ""),           \* 6  several dots
        Pn(r, "noext", 255, 17, "", "", ""),                 \* 7  no extension
        Pn(r, "page.html", 4096, 33, "html", "html", "page"),        \* 8  /page -> page.html
        Pn(r, "UP.HTML", 10, 90, "HTML", "html", ""),        \* 9  upper-case extension
        Dn(r, "docs"),                                       \* 10
        Pn(10, "index.html", 8192, 41, "html", "html", "index"),     \* 11
        Pn(10, "readme.md", 4095, 43, "md", "md", ""),       \* 12
        Dn(10, "deep"),                                      \* 13
        Pn(13, "x.json", 8193, 47, "json", "json", ""),      \* 14
        Dn(r, "empty"),                                      \* 15 directory without index page
        Dn(r, "noidx"),                                      \* 16 directory without index page ...
        Pn(r, "noidx.html", 12, 51, "html", "html", "noidx"),        \* 17 ... and a sibling .html (statement silent)
        Ln(r, "lnk", FALSE, <<"b.bin">>),                    \* 18 link to a file
        Ln(r, "ldir", FALSE, <<"docs">>),                    \* 19 link to a directory
        Pn(r, "big.mp4", 10001, 59, "mp4", "mp4", ""),       \* 20 just above the request buffer size
        Dn(r, "dir.js"),                                     \* 21 a directory whose name has an extension
        Pn(21, "readme", 9, 61, "", "", ""),                 \* 22
        Pn(r, "zqzq.bin", 3, 1, "bin", "bin", ""),           \* 23.. listing markers
        Pn(10, "zqzq.bin", 3, 2, "bin", "bin", ""),          \* 24
        Pn(13, "zqzq.bin", 3, 3, "bin", "bin", ""),          \* 25
        Pn(15, "zqzq.bin", 3, 4, "bin", "bin", ""),          \* 26
        Pn(16, "zqzq.bin", 3, 5, "bin", "bin", ""),          \* 27
        Pn(21, "zqzq.bin", 3, 6, "bin", "bin", ""),          \* 28
        Pn(r, "v.mjs", 8191, 63, "mjs", "mjs", ""),          \* 29
        Pn(r, "w.unknownext", 2, 65, "unknownext", "unknownext", ""),    \* 30 unregistered extension
        Pn(13, "huge.bin", 65537, 67, "bin", "bin", ""),     \* 31 large file
        Pn(13, "deep.html", 5, 69, "html", "html", "deep")           \* 32
      >> \o (IF with404 THEN << Pn(r, "404.html", 77, 71, "html", "html", "404") >> ELSE <<>>) ]

\* a second, differently shaped world: the root is the top itself, an index-less root, links pointing upward inside
FlatWorld(id) ==
    [id |-> id, root |-> 1, ascii |-> FALSE, nodes |-> <<
        Dn(1, "top"),                                        \* 1 root = top
        Pn(1, "one.css", 8192, 5, "css", "css", ""),         \* 2
        Pn(1, "two.svg", 4097, 6, "svg", "svg", ""),         \* 3
        Dn(1, "sub"),                                        \* 4
        Ln(4, "back", FALSE, <<"..", "one.css">>),           \* 5 relative link with .. that stays inside
        Dn(4, "sub2"),                                       \* 6
        Pn(6, "index.html", 1, 8, "html", "html", "index"),  \* 7
        Ln(6, "tosub", FALSE, <<"..">>),                     \* 8 link to the parent directory
        Pn(1, "zqzq.bin", 3, 1, "bin", "bin", ""),           \* 9
        Pn(4, "zqzq.bin", 3, 2, "bin", "bin", ""),           \* 10
        Pn(6, "zqzq.bin", 3, 3, "bin", "bin", ""),           \* 11
        Pn(4, "data.pdf", 257, 9, "pdf", "pdf", ""),         \* 12
        Ln(4, "rel", FALSE, <<"sub2", "index.html">>),       \* 13 link in a sub-directory with a relative target
        Pn(4, "k64.bin", 65536, 13, "bin", "bin", ""),       \* 14 exactly one 64 KiB block
        Pn(4, "k64m.wav", 65535, 14, "wav", "wav", ""),      \* 15 one byte short of it
        \* two lookup candidates: the file itself wins over <name>.html; a directory's index.html wins over <dir>.html
        Pn(1, "both", 21, 15, "", "", ""),                   \* 16
        Pn(1, "both.html", 22, 16, "html", "html", "both"),  \* 17
        Dn(1, "about"),                                      \* 18
        Pn(18, "index.html", 23, 17, "html", "html", "index"),   \* 19
        Pn(1, "about.html", 24, 18, "html", "html", "about"),    \* 20
        Pn(18, "zqzq.bin", 3, 4, "bin", "bin", ""),          \* 21
        Pn(1, ".hidden.txt", 25, 19, "txt", "txt", ""),      \* 22 a hidden file is a file
        \* text-like content (BOM, CRLF / LF / CR line ends, NUL, trailing line break): lengths chosen by what the file ends with
        Fn(1, "crlf.txt", 8, 0, "text", "txt", "txt", ""),   \* 23 ends with CR LF
        Fn(1, "bom.html", 11, 0, "text", "html", "html", "bom"), \* 24 ends with LF
        Fn(1, "cr.css", 12, 0, "text", "css", "css", ""),    \* 25 ends with a lone CR
        Fn(1, "long.svg", 4600, 0, "text", "svg", "svg", ""),\* 26 two hundred repetitions
        Fn(1, "nul.js", 15, 0, "text", "js", "js", "")       \* 27 ends with a NUL
      >>]

\* a root that holds its own copy of every reserved asset name (and a sub-directory that holds the same names,
\* where they are ordinary files)
AssetWorld(id) ==
    [id |-> id, root |-> 1, ascii |-> FALSE, nodes |-> <<
        Dn(1, "top"),                                                  \* 1 root = top
        Pn(1, "index.html", 41, 21, "html", "html", "index"),          \* 2
        Pn(1, "style.css", 42, 22, "css", "css", ""),                  \* 3
        Pn(1, "script.js", 43, 23, "js", "js", ""),                    \* 4
        Pn(1, "favicon.svg", 44, 24, "svg", "svg", ""),                \* 5
        Pn(1, "404.html", 45, 25, "html", "html", "404"),              \* 6
        Dn(1, "sub"),                                                  \* 7
        Pn(7, "style.css", 46, 26, "css", "css", ""),                  \* 8
        Pn(7, "favicon.svg", 47, 27, "svg", "svg", ""),                \* 9
        Pn(1, "zqzq.bin", 3, 1, "bin", "bin", ""),                     \* 10
        Pn(7, "zqzq.bin", 3, 2, "bin", "bin", "")                      \* 11
      >>]

C02Worlds == { MixWorld(21, FALSE), MixWorld(22, TRUE), FlatWorld(23) }
RouterWorlds == C02Worlds \cup {AssetWorld(24)}

-----------------------------------------------------------------------------
(* C03 world: one file per length class.                                    *)
RangeLens == <<0, 1, 2, 3, 10, 8191, 8192, 8193, 70000>>
RangeName(i) == <<"r0.bin", "r1.bin", "r2.bin", "r3.bin", "r10.bin", "r8191.bin", "r8192.bin", "r8193.bin", "r70000.bin">>[i]
RangeWorld ==
    [id |-> 31, root |-> 1, ascii |-> FALSE, nodes |->
        <<Dn(1, "top")>> \o [i \in 1..Len(RangeLens) |-> Pn(1, RangeName(i), RangeLens[i], 10 + i, "bin", "bin", "")]
                        \o << Pn(1, "zqzq.bin", 3, 1, "bin", "bin", "") >> ]

\* files too long for byte-by-byte bodies (judged by label, lengths and a sample of the body, Static!BigFile): slices longer than
\* any plausible chunk (8 MiB and more), and a length whose product with a long range list passes 2^31 and 2^32
BigWorld ==
    [id |-> 32, root |-> 1, ascii |-> FALSE, nodes |->
        <<Dn(1, "top"), Pn(1, "big12m.bin", 12582919, 17, "bin", "bin", ""), Pn(1, "big2m.bin", 2200003, 18, "bin", "bin", ""),
          Pn(1, "zqzq.bin", 3, 1, "bin", "bin", "")>>]

AllWorlds == C01Worlds \cup RouterWorlds \cup {RangeWorld, BigWorld}
WorldById(id) == CHOOSE W \in AllWorlds : W.id = id

=============================================================================
