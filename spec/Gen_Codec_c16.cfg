SPECIFICATION Spec
CONSTANTS
  Mode = "c16"
INVARIANT Emit
CHECK_DEADLOCK FALSE
