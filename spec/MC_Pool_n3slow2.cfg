SPECIFICATION Spec
CONSTANTS
  N = 3
  T = 6
  Kind <- K_N3slow2
  HoldLock = FALSE
  OneShot = FALSE
  Guarded = TRUE
  Spawned = 3
INVARIANT Safety
PROPERTIES EventuallyShortDone
CHECK_DEADLOCK FALSE
