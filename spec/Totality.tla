------------------------------ MODULE Totality ------------------------------
(***************************************************************************)
(* C20: every parsing entry point of the library is a total function into  *)
(* value + error.  A call is one step Call(ep, input) whose outcome is      *)
(* "value" or "error"; a panic, a stack overflow / abort of the process, or *)
(* a call that does not return (timeout) has no action.                     *)
(*                                                                         *)
(* The generator side: inputs are produced by structure-aware mutation of   *)
(* valid seed documents of each format.  A mutation is described            *)
(* abstractly -- operation, position (as a per-mille of the seed's length   *)
(* or "every position"), byte class -- and applied by the harness to the    *)
(* concrete seed bytes.                                                     *)
(***************************************************************************)
EXTENDS Naturals, Sequences, FiniteSets

EntryPoints == {"json_object", "json_array_split", "json_array_i128", "json_array_u8", "json_array_f64", "json_array_string",
                "json_array_bool", "json_array_null", "json_array_object", "base64_decode", "multipart_parse", "request_parse",
                "response_parse", "header_parse", "content_disposition_parse", "content_range_parse", "range_header_parse",
                "config_file", "path_extract_parts", "path_is_matching", "path_extract", "path_build", "boundary_extract",
                "form_urlencoded_parse",
                \* every width of the typed array readers, and the public parse functions that are reachable only through others in the server
                "json_array_i8", "json_array_i16", "json_array_i32", "json_array_i64", "json_array_u16", "json_array_u32", "json_array_u64",
                "json_array_u128", "json_array_f32", "json_property_parse", "url_parse", "url_parse_query", "cli_parse",
                "range_multipart_body", "range_in_content_range", "base64_decode_sequence",
                \* the remaining public readers: the legacy response reader, the line-level readers, the request-target accessors
                "response_parse_legacy", "status_line_legacy", "request_line", "request_header_line", "header_parse_header",
                "request_target_path", "request_target_query", "percent_decode", "mime_detect"}

ByteClasses == {"nul", "del", "x80", "xc3", "xff", "quote", "backslash", "lbracket", "lbrace", "rbracket", "rbrace", "comma", "colon",
                "minus", "e", "dot", "cr", "lf", "space", "percent", "equals", "slash", "digit9", "letter",
                "utf8_2", "utf8_3", "utf8_4"}           \* well-formed 2-, 3- and 4-byte characters
NSpecialNumbers == 32        \* the harness's table of boundary values: 0, 1, 2^7, 2^8, 2^15, 2^16, 2^31, 2^32, 2^63, 2^64, 2^127, 2^128 (each -1, +0), negatives, leading zeros, 1e400 ...
Positions == {0, 1, 5, 10, 25, 33, 50, 66, 75, 90, 95, 99, 1000}       \* per-mille of the seed length (1000 = at the end)
Ops == {"identity", "truncate", "flip", "insert", "delete", "duplicate_tail", "nest", "long_line", "repeat_delim",
        "eol", "eol_truncate",
        "repeat_seed", "repeat_head",
        "number", "numbers"}          \* a digit run of the seed (each in turn / all at once) replaced by the at-th special number   \* the whole seed / its first at-percent repeated n times: many parts, lines, elements      \* every CRLF of the seed replaced by the class byte (LF-only / CR-only documents), then cut

\* the abstract mutation space of one entry point with nseeds seed documents
Mutations(ep, nseeds) ==
    {[ep |-> ep, seed |-> s, op |-> "identity", at |-> 0, cls |-> "letter", all |-> FALSE] : s \in 1..nseeds}
    \cup {[ep |-> ep, seed |-> s, op |-> "truncate", at |-> 0, cls |-> "letter", all |-> TRUE] : s \in 1..nseeds}          \* at every position
    \cup {[ep |-> ep, seed |-> s, op |-> o, at |-> 0, cls |-> c, all |-> TRUE] : s \in 1..nseeds, o \in {"flip"}, c \in {"nul", "xff", "quote", "lbracket", "comma", "minus", "utf8_2", "utf8_4"}}
    \cup {[ep |-> ep, seed |-> s, op |-> o, at |-> p, cls |-> c, all |-> FALSE] : s \in 1..nseeds, o \in {"flip", "insert"}, p \in Positions, c \in ByteClasses}
    \cup {[ep |-> ep, seed |-> s, op |-> o, at |-> p, cls |-> "letter", all |-> FALSE] : s \in 1..nseeds, o \in {"delete", "duplicate_tail"}, p \in Positions}
    \cup {[ep |-> ep, seed |-> s, op |-> "eol", at |-> 0, cls |-> c, all |-> FALSE] : s \in 1..nseeds, c \in {"lf", "cr", "space", "nul"}}
    \cup {[ep |-> ep, seed |-> s, op |-> o, at |-> k, cls |-> "digit9", all |-> (o = "number")] : s \in 1..nseeds, o \in {"number", "numbers"}, k \in 1..NSpecialNumbers}
    \cup {[ep |-> ep, seed |-> s, op |-> "repeat_seed", at |-> n, cls |-> "letter", all |-> FALSE] : s \in 1..nseeds, n \in {3, 100, 1000}}
    \cup {[ep |-> ep, seed |-> s, op |-> "repeat_head", at |-> n, cls |-> c, all |-> FALSE] : s \in 1..nseeds, n \in {100, 1000}, c \in {"digit9", "letter", "e"}}
    \cup {[ep |-> ep, seed |-> s, op |-> "eol_truncate", at |-> 0, cls |-> c, all |-> TRUE] : s \in 1..nseeds, c \in {"lf", "cr"}}
    \cup {[ep |-> ep, seed |-> s, op |-> o, at |-> n, cls |-> c, all |-> FALSE] :
            s \in 1..nseeds, o \in {"nest", "long_line", "repeat_delim"}, n \in {10, 1000, 20000}, c \in {"lbracket", "lbrace", "quote", "letter", "comma", "cr", "minus"}}

\* ---------------------------------------------------------------- the property
VARIABLES called, outcome
Call(ep, out) == called' = ep /\ outcome' = out /\ out \in {"value", "error"}
C20 == outcome \in {"none", "value", "error"}
=============================================================================
