------------------------------- MODULE Config -------------------------------
(***************************************************************************)
(* Start-up configuration of rws (C12): Server::setup folds four sources   *)
(* into one store (the process environment), in this order                 *)
(*     SetDefaults   only where the variable is not already set            *)
(*     ReadEnv       the environment is the store itself: nothing to do    *)
(*     ApplyFile     rws.config.toml -> synthetic long flags               *)
(*     ApplyArgs     the command line                                       *)
(* and every later use reads the store.  The property is declarative:       *)
(* Effective(s) = command line, else file, else environment, else default,  *)
(* per setting and independent of every other setting.                      *)
(* Order = "pinned" is the code; the other orders are spec mutants.         *)
(***************************************************************************)
EXTENDS Naturals, Sequences, FiniteSets

CONSTANT Order      \* "pinned" | "file_after_cli" | "defaults_unconditional_last"

Setting == {"ip", "port", "threads", "alloc", "all", "origins", "creds", "headers", "methods", "expose", "maxage"}
Default == [ip |-> "127.0.0.1", port |-> "7878", threads |-> "200", alloc |-> "10000", all |-> "true", origins |-> "",
            creds |-> "", headers |-> "", methods |-> "", expose |-> "", maxage |-> "86400"]

\* a source is a partial function Setting -> value, as a record-like function
Supplies(src, s) == s \in DOMAIN src
Effective(env, file, cli, s) ==
    IF Supplies(cli, s) THEN cli[s] ELSE IF Supplies(file, s) THEN file[s] ELSE IF Supplies(env, s) THEN env[s] ELSE Default[s]

VARIABLES env, file, cli,     \* the three external sources (fixed during a start-up)
          store,              \* partial function: the process environment
          step                \* 0..4
cvars == <<env, file, cli, store, step>>

Over(f, g) == [s \in DOMAIN f \cup DOMAIN g |-> IF s \in DOMAIN g THEN g[s] ELSE f[s]]    \* g overrides f

StartWith(e, f, c) == env = e /\ file = f /\ cli = c /\ store = e /\ step = 0

SetDefaults == /\ step = 0 /\ store' = Over(Default, store) /\ step' = 1 /\ UNCHANGED <<env, file, cli>>
ReadEnv     == /\ step = 1 /\ store' = store /\ step' = 2 /\ UNCHANGED <<env, file, cli>>
ApplyFile   == /\ step = 2 /\ store' = Over(store, file) /\ step' = 3 /\ UNCHANGED <<env, file, cli>>
ApplyArgs   == /\ step = 3 /\ store' = Over(store, cli) /\ step' = 4 /\ UNCHANGED <<env, file, cli>>

\* spec mutants
ApplyArgsThenFile == /\ step = 2 /\ store' = Over(Over(store, cli), file) /\ step' = 4 /\ UNCHANGED <<env, file, cli>>
DefaultsLast      == /\ step = 0 /\ store' = Over(Over(Over(store, file), cli), Default) /\ step' = 4 /\ UNCHANGED <<env, file, cli>>

Next == CASE Order = "pinned" -> SetDefaults \/ ReadEnv \/ ApplyFile \/ ApplyArgs
          [] Order = "file_after_cli" -> SetDefaults \/ ReadEnv \/ ApplyArgsThenFile
          [] Order = "defaults_unconditional_last" -> DefaultsLast

C12 == step = 4 => \A s \in Setting : store[s] = Effective(env, file, cli, s)
=============================================================================
