SPECIFICATION TSpec
CONSTANTS
  Props = {"C02", "ROUTER"}
INVARIANT Done
POSTCONDITION AllConsumed
CHECK_DEADLOCK FALSE
