------------------------------- MODULE Static -------------------------------
(***************************************************************************)
(* Static file serving: the request -> response relation of rws for a      *)
(* world (Fs) and a request, as the properties C01, C02, C03, C09 state it. *)
(* Each property is an operator returning the SET OF VIOLATED CLAUSES for  *)
(* an observed response, so that a trace event is judged clause by clause.  *)
(*                                                                         *)
(* q (request) = [entry   "prod" (Server::process), "legacy" (process_request) *)
(*                method, lead, segs, query, frag                            *)
(*                         target = lead \o Join(segs, "/") \o query \o frag  *)
(*                         lead = "/" is origin-form; other leads are the    *)
(*                         non-origin spellings of C01                       *)
(*                range   [present, unit_ok, specs]                          *)
(*                has_origin, origin, ...]                                   *)
(* r (response) = HttpMsg projection + [hi] (set of byte values >= 128       *)
(*                occurring anywhere in the raw response)                    *)
(***************************************************************************)
EXTENDS Naturals, Sequences, FiniteSets, Bytes, Fs, HttpMsg, MimeTable

MimeOf(e) == IF \E p \in MimePairs : p[1] = e THEN (CHOOSE p \in MimePairs : p[1] = e)[2]
             ELSE "application/octet-stream"
Registered(e) == \E p \in MimePairs : p[1] = e

-----------------------------------------------------------------------------
(* The documented lookup: the file itself, else index.html inside the named *)
(* directory, else the file with ".html" appended.  The path is the target  *)
(* without query and fragment.                                              *)

WithHtml(segs) == [segs EXCEPT ![Len(segs)] = @ \o ".html"]

Lookup(W, segs) ==
    LET n == ResolveFrom(W, W.root, segs)
        h == IF segs = <<>> \/ segs[Len(segs)] = "" THEN NONE ELSE ResolveFrom(W, W.root, WithHtml(segs))
    IN IF IsFile(W, n) THEN [sel |-> "file", node |-> n]
       ELSE IF n # NONE /\ IsDir(W, n)
            THEN LET i == ResolveFrom(W, n, <<"index.html">>) IN
                 IF IsFile(W, i) THEN [sel |-> "index", node |-> i]
                 ELSE IF IsFile(W, h) THEN [sel |-> "free", node |-> h]      \* statement silent: 404 or the sibling
                 ELSE [sel |-> "none", node |-> NONE]
            ELSE IF IsFile(W, h) THEN [sel |-> "html", node |-> h]
            ELSE [sel |-> "none", node |-> NONE]

\* design-level property of the lookup (checked by MC_Static): it never selects a node outside the root unless
\* a symbolic link inside the root leads there, provided the path does not climb
LookupContained(W, segs) ==
    LET L == Lookup(W, segs) IN
    (~Climbs(segs) /\ L.node # NONE) =>
        (Inside(W, L.node) \/ (Node(W, L.node).cls = "secret" => GrantedBySymlink(W, L.node)))

\* paths the server handles by a built-in route rather than by the lookup (documented: the file of that name in
\* the root if present, else a built-in asset / demo endpoint)
Reserved(q) ==
    \/ q.segs = <<>> \/ q.segs = <<"">>                                           \* "/"
    \/ (Len(q.segs) = 1 /\ q.segs[1] \in {"style.css", "script.js", "favicon.svg", "form-get-method",
                                          "form-url-encoded-enctype-post-method", "form-multipart-enctype-post-method"})
    \/ q.segs = <<"file-upload", "initiate">>

OriginForm(q) == q.lead = "/"
PlainPath(q)  == OriginForm(q) /\ \A i \in 1..Len(q.segs) : q.segs[i] # ".." /\ q.segs[i] # "."

-----------------------------------------------------------------------------
(* C01: no file outside the served directory is disclosed.                  *)
C01Violations(W, q, r) ==
    (IF \E g \in Secrets(W) : (SecretBytes(W, g) \cap ByteSet(r.hi) # {}) /\ ~GrantedBySymlink(W, g)
     THEN {"C01.outside_file_bytes_disclosed"} ELSE {})
    \cup (IF OriginForm(q) /\ Climbs(q.segs) /\ r.status < 400 THEN {"C01.climbing_target_not_an_error"} ELSE {})

-----------------------------------------------------------------------------
(* C02: the right file, its exact bytes, its media type.                    *)
ListingMarker == <<122, 113, 122, 113>>              \* "zqzq": every generated directory holds an entry whose name contains it
NotFoundPage(W) == ResolveFrom(W, W.root, <<"404.html">>)

\* a body of more than 1 MiB is observed as a sample (offsets within the body and the bytes found there): it is the slice of
\* file f that starts at file offset lo as far as the sample can tell
SampleIsSlice(W, f, r, lo) == \A k \in DOMAIN r.sample.pos : r.sample.val[k] = FileByte(W, f, lo + r.sample.pos[k])
BodyIsFile(W, f, r) == r.body_len = FileLen(W, f) /\ (IF r.big THEN SampleIsSlice(W, f, r, 0) ELSE r.body = FileBytes(W, f))

TypeViolations(W, f, r) ==
    LET e == Node(W, f).ext  el == Node(W, f).extl IN
    IF HdrCount(r, "content-type") # 1 THEN {"C02.content_type_count"}
    ELSE IF Registered(e) THEN (IF HdrV(r, "content-type") = MimeOf(e) THEN {} ELSE {"C02.content_type"})
    ELSE IF Registered(el) THEN {}                                   \* upper-case spelling of a registered extension: free
    ELSE (IF HdrV(r, "content-type") = "application/octet-stream" THEN {} ELSE {"C02.content_type_default"})

\* reserved names answered by a controller that serves "the file of that name in the root if present": when the
\* lookup selects a file for them, the letter of C02 applies like for any other path (Router pins the rest)
ReservedAsset(q) == q.segs = <<>> \/ q.segs = <<"">>
                    \/ (Len(q.segs) = 1 /\ q.segs[1] \in {"style.css", "script.js", "favicon.svg"})
Exempt(W, q) == Reserved(q) /\ ~(ReservedAsset(q) /\ Lookup(W, q.segs).sel \in {"file", "index"})

C02Violations(W, q, r) ==
    IF ~(q.method = "GET" /\ PlainPath(q) /\ ~q.range.present /\ ~Exempt(W, q)) THEN {}
    ELSE LET L == Lookup(W, q.segs) IN
         CASE L.sel \in {"file", "index", "html"} ->
                (IF r.status = 200 THEN {} ELSE {"C02.status_not_200"})
                \cup (IF r.status = 200 /\ ~BodyIsFile(W, L.node, r) THEN {"C02.body_differs_from_file"} ELSE {})
                \cup (IF r.status = 200 /\ ~(ContentLengthOk(r) /\ ContentLength(r) = FileLen(W, L.node))
                      THEN {"C02.content_length"} ELSE {})
                \cup (IF r.status = 200 THEN TypeViolations(W, L.node, r) ELSE {})
           [] L.sel = "none" ->
                (IF r.status = 404 THEN {} ELSE {"C02.missing_not_404"})
                \cup (IF \E f \in Nodes(W) : IsFile(W, f) /\ FileLen(W, f) > 0 /\ f # NotFoundPage(W) /\ BodyIsFile(W, f, r)
                      THEN {"C02.other_file_content_on_404"} ELSE {})
                \cup (IF Occurs(r.body, ListingMarker) THEN {"C02.directory_listing"} ELSE {})
           [] L.sel = "free" ->
                (IF r.status = 404 \/ (r.status = 200 /\ BodyIsFile(W, L.node, r)) THEN {} ELSE {"C02.ambiguous_case_neither"})

-----------------------------------------------------------------------------
(* C03: byte ranges.  A range-spec is [t, a, b]: "fl" first-last, "f" first-, "s" -suffix (length in a),  *)
(* "junk"; an offset is [k, v] with k = "n" (the number v) or "big" / "junk" (not a position in any file). *)

IsNum(o) == o.k = "n"
InFile(L, s) == CASE s.t = "fl" -> IsNum(s.a) /\ IsNum(s.b) /\ s.a.v <= s.b.v /\ s.b.v < L
                  [] s.t = "f"  -> IsNum(s.a) /\ s.a.v < L
                  [] s.t = "s"  -> IsNum(s.a) /\ s.a.v >= 1 /\ s.a.v <= L
                  [] OTHER      -> FALSE
Slice(L, s)  == CASE s.t = "fl" -> [lo |-> s.a.v, hi |-> s.b.v]
                  [] s.t = "f"  -> [lo |-> s.a.v, hi |-> L - 1]
                  [] s.t = "s"  -> [lo |-> L - s.a.v, hi |-> L - 1]

\* "bytes lo-hi/size" -> [ok, lo, hi, size]
BytesSp == <<98, 121, 116, 101, 115, 32>>
CRParse(vb) ==
    LET t == TrimOws(vb)
        bad == [ok |-> FALSE, lo |-> 0, hi |-> 0, size |-> 0]
    IN IF ~StartsWith(t, BytesSp) THEN bad
       ELSE LET rest == Drop(t, 6)
                d == Find(rest, <<HYPHEN>>)
                s == Find(rest, <<SLASH>>)
            IN IF d = 0 \/ s = 0 \/ s < d THEN bad
               ELSE LET lo == Sub(rest, 1, d - 1)  hi == Sub(rest, d + 1, s - 1)  sz == Sub(rest, s + 1, Len(rest))
                    IN IF SmallDecimal(lo) /\ SmallDecimal(hi) /\ SmallDecimal(sz)
                       THEN [ok |-> TRUE, lo |-> DecVal(lo), hi |-> DecVal(hi), size |-> DecVal(sz)]
                       ELSE bad

\* one part of a range response: its Content-Range label and its bytes
Part(cr, body) == [ok |-> cr.ok, lo |-> cr.lo, hi |-> cr.hi, size |-> cr.size, body |-> body]

\* multipart/byteranges body -> sequence of parts (ok = FALSE where the structure is broken)
BoundaryEq == <<98, 111, 117, 110, 100, 97, 114, 121, 61>>          \* "boundary="
ContentRangeColon == <<99, 111, 110, 116, 101, 110, 116, 45, 114, 97, 110, 103, 101, 58>>  \* "content-range:"
CRLF == <<CR, LF>>
BoundaryOf(ctb) == LET p == Find(ctb, BoundaryEq) IN IF p = 0 THEN <<>> ELSE TrimOws(Drop(ctb, p + 8))
PieceToPart(piece) ==
    \* piece = CRLF header-lines CRLF CRLF data
    LET sep == Find(piece, CRLF \o CRLF)
    IN IF sep = 0 \/ ~StartsWith(piece, CRLF) THEN Part([ok |-> FALSE, lo |-> 0, hi |-> 0, size |-> 0], <<>>)
       ELSE LET lines == SplitOn(Sub(piece, 3, sep - 1), CRLF)
                idx == {i \in 1..Len(lines) : StartsWith(Lower(lines[i]), ContentRangeColon)}
                data == Drop(piece, sep + 3)
            IN IF Cardinality(idx) # 1 THEN Part([ok |-> FALSE, lo |-> 0, hi |-> 0, size |-> 0], data)
               ELSE Part(CRParse(Drop(lines[CHOOSE i \in idx : TRUE], 14)), data)
MultiParts(r) ==
    LET B == BoundaryOf(HdrVb(r, "content-type"))
        D == <<HYPHEN, HYPHEN>> \o B
        pieces == SplitOn(r.body, CRLF \o D)
        n == Len(pieces)
    IN IF B = <<>> \/ ~StartsWith(r.body, D) \/ n < 2 THEN <<>>
       ELSE IF pieces[n] \notin {<<>>, <<HYPHEN, HYPHEN>>, <<HYPHEN, HYPHEN, CR, LF>>} THEN <<>>     \* closing delimiter missing
       ELSE [i \in 1..(n - 1) |-> PieceToPart(IF i = 1 THEN Drop(pieces[1], Len(D)) ELSE pieces[i])]

MultipartCT == <<109, 117, 108, 116, 105, 112, 97, 114, 116, 47, 98, 121, 116, 101, 114, 97, 110, 103, 101, 115>>
IsMultipart(r) == HdrCount(r, "content-type") = 1 /\ StartsWith(Lower(HdrVb(r, "content-type")), MultipartCT)

RangeParts(r) ==
    IF IsMultipart(r) THEN MultiParts(r)
    ELSE IF HdrCount(r, "content-range") = 1 THEN <<Part(CRParse(r.hs[FirstIdx(r, "content-range")].vb), r.body)>>
    ELSE <<>>

\* a part is a correctly labelled slice of file f
PartIsSlice(W, f, p) ==
    /\ p.ok /\ p.lo <= p.hi /\ p.hi < FileLen(W, f) /\ p.size = FileLen(W, f)
    /\ Len(p.body) = p.hi - p.lo + 1
    /\ p.body = FileSlice(W, f, p.lo, p.hi)

BigList == 129
BigFile == 1048576
C03Violations(W, q, r) ==
    IF ~(q.method = "GET" /\ PlainPath(q) /\ q.range.present /\ ~Reserved(q)) THEN {}
    ELSE LET L == Lookup(W, q.segs) IN
         IF L.sel \notin {"file", "index", "html"} THEN {}
         ELSE LET f == L.node  len == FileLen(W, f)  specs == q.range.specs  parts == RangeParts(r) IN
              IF Len(specs) > BigList
              THEN \* a range list too long for the part-by-part judgement (hundreds of parts): every spec in the file => one part each.
                   \* The closing delimiter of this server has no trailing "--", so a body of n parts holds n + 1 delimiter lines.
                   IF q.range.unit_ok /\ \A i \in 1..Len(specs) : InFile(len, specs[i])
                   THEN (IF r.status = 206 THEN {} ELSE {"C03.satisfiable_not_206"})
                        \cup (IF r.status = 206 /\ ~IsMultipart(r) THEN {"C03.not_multipart"} ELSE {})
                        \cup (IF r.status = 206 /\ IsMultipart(r) /\ r.ndelims # Len(specs) + 1 THEN {"C03.part_count"} ELSE {})
                   ELSE {}
              ELSE IF len > BigFile
              THEN \* a file too long for byte-by-byte bodies: ONE range inside the file => 206, the label, the two lengths, the sample
                   IF q.range.unit_ok /\ q.range.style # "empty_element" /\ Len(specs) = 1 /\ InFile(len, specs[1])
                   THEN LET sl == Slice(len, specs[1])
                            cr == IF HdrCount(r, "content-range") = 1 THEN CRParse(r.hs[FirstIdx(r, "content-range")].vb) ELSE [ok |-> FALSE, lo |-> 0, hi |-> 0, size |-> 0]
                        IN (IF r.status = 206 THEN {} ELSE {"C03.satisfiable_not_206"})
                           \cup (IF r.status = 206 /\ ~(cr.ok /\ cr.lo = sl.lo /\ cr.hi = sl.hi /\ cr.size = len) THEN {"C03.content_range_label"} ELSE {})
                           \cup (IF r.status = 206 /\ ~(ContentLengthOk(r) /\ ContentLength(r) = sl.hi - sl.lo + 1) THEN {"C03.content_length"} ELSE {})
                           \cup (IF r.status = 206 /\ ~(r.body_len = sl.hi - sl.lo + 1 /\ (IF r.big THEN SampleIsSlice(W, f, r, sl.lo) ELSE r.body = FileSlice(W, f, sl.lo, sl.hi)))
                                 THEN {"C03.bytes"} ELSE {})
                   ELSE {}
              ELSE
              IF q.range.unit_ok /\ q.range.style # "empty_element" /\ Len(specs) >= 1 /\ \A i \in 1..Len(specs) : InFile(len, specs[i])
              THEN \* every range lies inside the file: 206 with exactly these slices, in request order
                   (IF r.status = 206 THEN {} ELSE {"C03.satisfiable_not_206"})
                   \cup (IF r.status = 206 /\ Len(parts) # Len(specs) THEN {"C03.part_count"} ELSE {})
                   \cup (IF r.status = 206 /\ Len(parts) = Len(specs) /\
                            \E i \in 1..Len(specs) : LET sl == Slice(len, specs[i]) IN
                                ~(parts[i].ok /\ parts[i].lo = sl.lo /\ parts[i].hi = sl.hi /\ parts[i].size = len)
                         THEN {"C03.content_range_label"} ELSE {})
                   \cup (IF r.status = 206 /\ Len(parts) = Len(specs) /\
                            \E i \in 1..Len(specs) : LET sl == Slice(len, specs[i]) IN
                                parts[i].body # FileSlice(W, f, sl.lo, sl.hi)
                         THEN {"C03.bytes"} ELSE {})
                   \cup (IF r.status = 206 /\ Len(specs) = 1 /\ Len(parts) = 1 /\
                            ~(ContentLengthOk(r) /\ ContentLength(r) = Len(parts[1].body))
                         THEN {"C03.content_length"} ELSE {})
                   \cup (IF r.status = 206 /\ Len(specs) > 1 /\ ~IsMultipart(r) THEN {"C03.not_multipart"} ELSE {})
              ELSE \* malformed or reaching outside: 416, or correctly labelled clamped slices, or the header ignored
                   IF r.status = 416 THEN {}
                   ELSE IF r.status = 206
                        THEN (IF Len(parts) >= 1 /\ \A i \in 1..Len(parts) : PartIsSlice(W, f, parts[i])
                              THEN {} ELSE {"C03.unsatisfiable_mislabelled_or_wrong_bytes"})
                   ELSE IF r.status = 200 THEN (IF BodyIsFile(W, f, r) THEN {} ELSE {"C03.ignored_range_wrong_body"})
                   ELSE {"C03.unsatisfiable_status"}

\* Diagnosis of a rejected range response, part by part (used for the report and for known-finding signatures):
\*   "ok"    the part is the requested / a correctly labelled slice
\*   "endL"  the bytes are exactly the slice lo..L-1 but the label's last-byte-pos is L (one past the last byte)
\*   "other" anything else
PartClass(W, f, p, want) ==
    LET len == FileLen(W, f) IN
    IF want.any /\ PartIsSlice(W, f, p) THEN "ok"
    ELSE IF ~want.any /\ p.ok /\ p.lo = want.lo /\ p.hi = want.hi /\ p.size = len /\ p.body = FileSlice(W, f, want.lo, want.hi) THEN "ok"
    ELSE IF p.ok /\ p.hi = len /\ p.size = len /\ p.lo <= len /\ (want.any \/ (p.lo = want.lo /\ want.hi = len - 1))
            /\ p.body = FileSlice(W, f, p.lo, len - 1) THEN "endL"
    ELSE "other"
C03Detail(W, q, r) ==
    IF ~(q.method = "GET" /\ PlainPath(q) /\ q.range.present /\ ~Reserved(q)) THEN <<>>
    ELSE LET L == Lookup(W, q.segs) IN
         IF L.sel \notin {"file", "index", "html"} THEN <<>>
         ELSE IF Len(q.range.specs) > BigList THEN <<>>
         ELSE IF FileLen(W, L.node) > BigFile THEN <<>>
         ELSE LET f == L.node  len == FileLen(W, f)  specs == q.range.specs  parts == RangeParts(r)
                  sat == q.range.unit_ok /\ q.range.style # "empty_element" /\ Len(specs) >= 1 /\ \A i \in 1..Len(specs) : InFile(len, specs[i])
              IN [i \in 1..Len(parts) |->
                    PartClass(W, f, parts[i],
                              IF sat /\ i <= Len(specs)
                              THEN [any |-> FALSE, lo |-> Slice(len, specs[i]).lo, hi |-> Slice(len, specs[i]).hi]
                              ELSE [any |-> TRUE, lo |-> 0, hi |-> 0])]

=============================================================================
