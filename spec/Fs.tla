--------------------------------- MODULE Fs ---------------------------------
(***************************************************************************)
(* The file tree the server runs in, and POSIX path resolution on it.      *)
(*                                                                         *)
(* A world W is a record                                                    *)
(*   [id, root, nodes]                                                      *)
(* where nodes is a sequence of node records (node 1 is the top of the      *)
(* modelled tree and its own parent):                                       *)
(*   [parent, name, kind \in {"dir","file","link"},                         *)
(*    abs, tsegs            link target: absolute (from Top) or relative    *)
(*    len, key, cls         file content: length, pattern key, class        *)
(*    ext, extl]            final extension of the name, as is / lower-case *)
(* and root is the node the server is started in (its working directory).   *)
(* Everything that is not a descendant of root is "outside".                 *)
(*                                                                         *)
(* File contents are DEFINED here, so that the specification can say        *)
(* "exactly the bytes at those offsets" without being told the answer:      *)
(*   cls = "pat"    byte i = (key + 131*i + i \div 251) % 256   (all values) *)
(*   cls = "ascii"  byte i = 32 + (key + 7*i) % 90              (7-bit)      *)
(*   cls = "secret" byte i = 160 + 2*key + (i % 2)   reserved per file       *)
(*   cls = "text"   byte i = TextTable[i % 23]  (BOM, CRLF / LF / CR, NUL ..) *)
(*                  (key <= 32; the built-in index page contains the bytes   *)
(*                  128, 148, 226 of an em dash, so the range starts at 160): *)
(*                  these two byte values occur in no other file, in no      *)
(*                  built-in page and in no header, so one leaked byte       *)
(*                  identifies the file it came from.                        *)
(***************************************************************************)
EXTENDS Naturals, Sequences, FiniteSets

NONE == 0            \* no such node
OUT  == 999999       \* a directory above the top of the modelled tree (it has no children we know of)
Top  == 1

Nodes(W)    == 1..Len(W.nodes)
Node(W, n)  == W.nodes[n]
IsDir(W, n)  == n = OUT \/ (n \in Nodes(W) /\ Node(W, n).kind = "dir")
IsFile(W, n) == n \in Nodes(W) /\ Node(W, n).kind = "file"
IsLink(W, n) == n \in Nodes(W) /\ Node(W, n).kind = "link"

ParentOf(W, n) == IF n = OUT \/ n = Top THEN OUT ELSE Node(W, n).parent

\* the child of directory d called s (names are unique within a directory), NONE if there is none
Child(W, d, s) ==
    IF d = OUT THEN NONE
    ELSE LET C == {n \in Nodes(W) : n # Top /\ Node(W, n).parent = d /\ Node(W, n).name = s}
         IN IF C = {} THEN NONE ELSE CHOOSE n \in C : TRUE

\* POSIX resolution of the segment sequence segs starting at directory cur.  Empty and "." segments are
\* skipped, ".." goes to the parent, symbolic links are followed (fuel bounds link chains, ELOOP = NONE),
\* a non-directory in the middle is ENOTDIR (also for a trailing slash after a file).
RECURSIVE Resolve(_, _, _, _)
Resolve(W, cur, segs, fuel) ==
    IF cur = NONE \/ fuel = 0 THEN NONE
    ELSE IF segs = <<>> THEN cur
    ELSE IF ~IsDir(W, cur) THEN NONE
    ELSE LET s == Head(segs)  rest == Tail(segs) IN
         IF s = "" \/ s = "." THEN Resolve(W, cur, rest, fuel)
         ELSE IF s = ".." THEN Resolve(W, ParentOf(W, cur), rest, fuel)
         ELSE LET c == Child(W, cur, s) IN
              IF c = NONE THEN NONE
              ELSE IF IsLink(W, c)
                   THEN Resolve(W, Resolve(W, IF Node(W, c).abs THEN Top ELSE cur, Node(W, c).tsegs, fuel - 1),
                                rest, fuel - 1)
                   ELSE Resolve(W, c, rest, fuel)

Fuel == 8
ResolveFrom(W, start, segs) == Resolve(W, start, segs, Fuel)

\* n lies in the subtree of the served root (by parent links, i.e. by its real location)
RECURSIVE Under(_, _, _)
Under(W, n, anc) == IF n = anc THEN TRUE
                    ELSE IF n = Top \/ n = OUT \/ n = NONE THEN FALSE
                    ELSE Under(W, Node(W, n).parent, anc)
Inside(W, n) == Under(W, n, W.root)

\* lexical climbing: some prefix of the segments has more ".." than names
IsName(s) == s # "" /\ s # "." /\ s # ".."
RECURSIVE DepthAfter(_, _)
\* depth reached after the segments, or -1 (encoded as 0 with flag) -- written with an accumulator instead:
DepthAfter(segs, d) == IF segs = <<>> THEN TRUE
                       ELSE IF Head(segs) = ".." THEN (IF d = 0 THEN FALSE ELSE DepthAfter(Tail(segs), d - 1))
                       ELSE IF IsName(Head(segs)) THEN DepthAfter(Tail(segs), d + 1)
                       ELSE DepthAfter(Tail(segs), d)
Climbs(segs) == ~DepthAfter(segs, 0)

-----------------------------------------------------------------------------
\* file contents
\* cls = "text": what text files contain and what careless "text handling" damages: a UTF-8 BOM first, CRLF, LF and CR
\* line ends, blanks, a NUL, a lone Latin-1 byte, an empty line, dashes; the file length decides what it ends with
TextTable == <<239, 187, 191, 60, 112, 62, 13, 10, 104, 105, 10, 13, 32, 9, 0, 228, 13, 10, 13, 10, 45, 45, 10>>
PatByte(cls, key, i) ==
    CASE cls = "pat"    -> (key + (131 * i) + (i \div 251)) % 256
      [] cls = "ascii"  -> 32 + ((key + (7 * i)) % 90)
      [] cls = "secret" -> 160 + (2 * key) + (i % 2)
      [] cls = "text"   -> TextTable[(i % Len(TextTable)) + 1]
FileByte(W, f, i) == PatByte(Node(W, f).cls, Node(W, f).key, i)          \* i is a 0-based offset
FileLen(W, f)     == Node(W, f).len
\* bytes lo..hi (0-based, inclusive) of file f
FileSlice(W, f, lo, hi) == IF hi < lo THEN <<>> ELSE [j \in 1..(hi - lo + 1) |-> FileByte(W, f, lo + j - 1)]
FileBytes(W, f) == FileSlice(W, f, 0, FileLen(W, f) - 1)

\* secrets: files outside the root with cls = "secret"; their reserved byte values
Secrets(W) == {n \in Nodes(W) : IsFile(W, n) /\ Node(W, n).cls = "secret"}
SecretBytes(W, g) == {160 + 2 * Node(W, g).key, 161 + 2 * Node(W, g).key}
\* the owner's exemption of C01: some symbolic link placed INSIDE the served directory resolves to the
\* secret itself or to a directory above it
GrantedBySymlink(W, g) ==
    \E k \in Nodes(W) :
        /\ IsLink(W, k) /\ Inside(W, Node(W, k).parent)
        /\ LET tgt == ResolveFrom(W, IF Node(W, k).abs THEN Top ELSE Node(W, k).parent, Node(W, k).tsegs)
           IN tgt # NONE /\ tgt # OUT /\ Under(W, g, tgt)

WorldOK(W) ==
    /\ W.root \in Nodes(W) /\ IsDir(W, W.root)
    /\ Node(W, Top).kind = "dir" /\ Node(W, Top).parent = Top
    /\ \A n \in Nodes(W) : Node(W, n).parent \in Nodes(W) /\ (n # Top => IsDir(W, Node(W, n).parent))
    /\ \A m, n \in Nodes(W) : (m # n /\ m # Top /\ n # Top /\ Node(W, m).parent = Node(W, n).parent)
                                  => Node(W, m).name # Node(W, n).name
    /\ \A g \in Secrets(W) : ~Inside(W, g)
=============================================================================
