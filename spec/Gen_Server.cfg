SPECIFICATION Spec
CONSTANTS
  L = 2
  Sizes = {1, 2}
INVARIANT Emit
CHECK_DEADLOCK FALSE
