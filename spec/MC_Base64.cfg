SPECIFICATION Spec
CONSTANTS
  B3 = {0, 1, 3, 15, 16, 63, 64, 127, 128, 192, 252, 255}
  MaxLen = 3
  Emit = TRUE
  CorruptLen = 3
INVARIANTS EncPrefix DecPrefix Canonical RoundTrip SextetsAgree AlphaBijective TablesAgree EmitCase EmitCorruptions
CHECK_DEADLOCK FALSE
