SPECIFICATION Spec
CONSTANTS
  ImplSingleWrite = FALSE
  MaxLen = 6
INVARIANT DeliveredInFull OkMeansDelivered
CHECK_DEADLOCK FALSE
