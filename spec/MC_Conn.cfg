SPECIFICATION Spec
CONSTANTS
  ImplSingleWrite = FALSE
  MaxLen = 6
INVARIANT DeliveredInFull OkMeansDelivered
CONSTRAINT Bounded
CHECK_DEADLOCK FALSE
