SPECIFICATION Spec
CONSTANTS
  Impl = FALSE
  MaxSegs = 3
INVARIANT Contained NeverADirectory ClimbIsNone
CHECK_DEADLOCK FALSE
