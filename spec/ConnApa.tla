------------------------------ MODULE ConnApa ------------------------------
(* Conn for Apalache: the same actions over unbounded naturals (any response length, any short-write pattern). *)
EXTENDS Integers

CONSTANT
    \* @type: Bool;
    ImplSingleWrite

VARIABLES
    \* @type: Str;
    phase,
    \* @type: Int;
    sent,
    \* @type: Int;
    pending,
    \* @type: Bool;
    fault,
    \* @type: Str;
    result

INSTANCE Conn

ConstInit == ImplSingleWrite = FALSE
ConstInitImpl == ImplSingleWrite = TRUE

NextA == \/ ReadOk \/ ReadErr
         \/ \E o \in Nat, a \in Nat, c \in BOOLEAN : Write(o, a, c)
         \/ \E o \in Nat, c \in BOOLEAN : WriteErr(o, c)
         \/ FlushOk \/ FlushErr
         \/ \E r \in {"ok", "err"}, e \in BOOLEAN : Return(r, e)
         \/ UNCHANGED <<phase, sent, pending, fault, result>>

TypeOK == /\ phase \in {"new", "read_ok", "read_err", "writing", "flushed", "returned"}
          /\ sent \in Nat /\ pending \in Nat /\ fault \in BOOLEAN /\ result \in {"none", "ok", "err"}
OkMeansDelivered == (phase = "returned" /\ result = "ok") => (sent > 0 /\ pending = 0 /\ ~fault)
\* inductive strengthening: Ok can only have been returned from a flushed, fault-free, fully accepted state
IndInv == /\ TypeOK
          /\ (phase # "returned" => result = "none")
          /\ (phase = "flushed" /\ ~fault => pending = 0)
          /\ OkMeansDelivered
          /\ DeliveredInFull
=============================================================================
