SPECIFICATION Spec
CONSTANTS
  Mode = "c17"
INVARIANT Emit
CHECK_DEADLOCK FALSE
