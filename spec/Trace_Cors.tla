----------------------------- MODULE Trace_Cors -----------------------------
(***************************************************************************)
(* Trace validation for C11: Config(cfg) events say which policy the        *)
(* process (in-process environment, or a real server started with it) runs  *)
(* under; every Req(q, r) event is judged by Cors!CorsViolations.           *)
(***************************************************************************)
EXTENDS Cors, Json, IOUtils, TLC

CONSTANT Props      \* {"C11"}; {"C10"}: the hardening headers judged on the responses produced under every CORS configuration
Rec == ndJsonDeserialize(IOEnv.TRACE)
VARIABLES l, cfg, nfail
tvars == <<l, cfg, nfail>>
TInit == l = 1 /\ cfg = [all |-> TRUE] /\ nfail = 0
Ev == Rec[l]

TConfig == /\ l <= Len(Rec) /\ Ev.ev = "Config"
           /\ cfg' = Ev.cfg /\ l' = l + 1 /\ UNCHANGED nfail
TReq == /\ l <= Len(Rec) /\ Ev.ev = "Req"
        /\ LET bad == IF Ev.r.raw_len = 0 THEN (IF "C11" \in Props THEN {"C11.no_response"} ELSE {})
                      ELSE (IF "C11" \in Props THEN CorsViolations(cfg, Ev.q, Ev.r) ELSE {})
                           \cup (IF "C10" \in Props THEN HardeningViolations(Ev.r) ELSE {}) IN
             /\ (IF bad = {} THEN TRUE ELSE PrintT(<<"FAIL", ToJson([i |-> l, props |-> bad])>>))
             /\ nfail' = nfail + (IF bad = {} THEN 0 ELSE 1)
        /\ l' = l + 1 /\ UNCHANGED cfg
TNext == TConfig \/ TReq
TSpec == TInit /\ [][TNext]_tvars
Done == (l = Len(Rec) + 1) => PrintT(<<"DONE", Len(Rec), nfail>>)
AllConsumed == TLCGet("stats").diameter = Len(Rec) + 1
=============================================================================
