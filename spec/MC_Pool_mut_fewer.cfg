SPECIFICATION SpecAllReleased
CONSTANTS
  N = 3
  T = 6
  Kind <- K_3rdv_inst_long_inst
  HoldLock = FALSE
  OneShot = FALSE
  Guarded = TRUE
  Spawned = 2
INVARIANT Safety
PROPERTIES EventuallyAllDone
CHECK_DEADLOCK FALSE
