SPECIFICATION SpecAllReleased
CONSTANTS
  N = 1
  T = 4
  Kind <- K_N1
  HoldLock = FALSE
  OneShot = FALSE
  Spawned = 1
INVARIANT Safety
PROPERTIES EventuallyAllDone NoIdleStarvation
CHECK_DEADLOCK FALSE
