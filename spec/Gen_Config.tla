----------------------------- MODULE Gen_Config -----------------------------
(***************************************************************************)
(* Case generator for C12: which source supplies which setting with which  *)
(* value, and how the command line / config file spell it.  The harness     *)
(* renders the environment, rws.config.toml and argv, launches the real     *)
(* binary and probes the effective value of every observable setting.       *)
(* Port values are tokens (P_env, P_file, P_cli): the harness substitutes   *)
(* free ports.  Boolean settings are enumerated over all value assignments. *)
(***************************************************************************)
EXTENDS Naturals, Sequences, FiniteSets, TLC, Json
Setting == {"ip", "port", "threads", "alloc", "all", "origins", "creds", "headers", "methods", "expose", "maxage"}   \* = Config!Setting

CONSTANT Depth     \* 1: singles + spellings + full configurations; 2: + pairs with the allow-all switch

VARIABLE case
Srcs == {"env", "file", "cli"}
Bool == {"all", "creds"}
CorsOther == {"origins", "creds", "headers", "methods", "expose", "maxage"}

Val(s, src) ==
    CASE s = "ip"      -> (IF src = "env" THEN "127.0.0.2" ELSE IF src = "file" THEN "127.0.0.3" ELSE "127.0.0.4")
      [] s = "port"    -> "P_" \o src
      [] s = "threads" -> (IF src = "env" THEN "3" ELSE IF src = "file" THEN "5" ELSE "7")
      [] s = "alloc"   -> (IF src = "env" THEN "11000" ELSE IF src = "file" THEN "12000" ELSE "13000")
      [] s = "origins" -> "https://" \o src \o ".example"
      [] s = "headers" -> (IF src = "file" THEN "x-file,content-type" ELSE "x-" \o src)
      [] s = "methods" -> (IF src = "env" THEN "GET" ELSE IF src = "file" THEN "GET,PUT" ELSE "DELETE")
      [] s = "expose"  -> "x-exp-" \o src
      [] s = "maxage"  -> (IF src = "env" THEN "11" ELSE IF src = "file" THEN "22" ELSE "33")
      [] OTHER         -> "true"

\* all value assignments of setting s over the sources in S: a set of functions S -> value
Assignments(s, S) == IF s \in Bool THEN [S -> {"true", "false"}] ELSE {[src \in S |-> Val(s, src)]}

\* a case: three partial functions built from a set of triples <<setting, source, value>>
Part(T, src) == [s \in {t[1] : t \in {u \in T : u[2] = src}} |-> (CHOOSE t \in T : t[1] = s /\ t[2] = src)[3]]
Case(T, focus, cliForm, fileForm, style) ==
    [env |-> Part(T, "env"), file |-> Part(T, "file"), cli |-> Part(T, "cli"),
     focus |-> focus, cli_form |-> cliForm, file_form |-> fileForm, style |-> style]
Triples(s, S, a) == {<<s, src, a[src]>> : src \in S}

\* make the other CORS settings observable: the switch is off, said by the environment (lowest explicit source)
Ctx(s) == IF s \in CorsOther THEN {<<"all", "env", "false">>} ELSE {}

\* renderings of the same file content (all of them TOML): "tight" has no blanks around '=', comments glued to values and
\* to the table header, a tab before a comment, an indented full-line comment and CRLF line endings
\* "no_final_newline": the plain rendering whose last line has no terminator
Styles == {"plain", "comments_quotes", "reordered_spaces", "tight", "no_final_newline"}

GInit ==
    \/ \E s \in Setting, S \in SUBSET Srcs : \E a \in Assignments(s, S) : \E st \in Styles :
           /\ (st = "plain" \/ "file" \in S)
           /\ case = Case(Triples(s, S, a) \cup Ctx(s), {s}, "long", "table", st)
    \* other KINDS of value: the address given as a host name by the highest-priority source (documented: "IP or domain")
    \/ \E S \in (SUBSET Srcs) \ {{}} : \E st \in {"plain", "comments_quotes"} :
           LET top == IF "cli" \in S THEN "cli" ELSE IF "file" \in S THEN "file" ELSE "env" IN
           case = Case({<<"ip", src, IF src = top THEN "localhost" ELSE Val("ip", src)>> : src \in S}, {"ip"}, "long", "table", st)
    \/ \E s \in Setting : \E form \in {<<"short", "table">>, <<"long", "hyphen">>, <<"long", "root">>} :
           \E S \in {{"cli"}, {"file"}} : \E a \in Assignments(s, S) :
               case = Case(Triples(s, S, a) \cup Ctx(s), {s}, form[1], form[2], "plain")
    \/ \E S \in (SUBSET Srcs) \ {{}} : \E cf \in {"long", "long_reversed", "short_reversed"} :
           case = Case(UNION {Triples(s, S, [src \in S |-> IF s \in Bool THEN (IF s = "all" THEN "false" ELSE "true") ELSE Val(s, src)]) : s \in Setting},
                       Setting, cf, "table", "comments_quotes")
    \/ /\ Depth >= 2
       /\ \E s2 \in CorsOther, S1 \in {{"file"}, {"cli"}, {"file", "cli"}, {"env", "file"}}, S2 \in {{"file"}, {"env"}, {"cli"}} :
            \E a1 \in Assignments("all", S1), a2 \in Assignments(s2, S2) : \E st \in {"plain", "reordered_spaces"} :
               case = Case(Triples("all", S1, a1) \cup Triples(s2, S2, a2), {"all", s2}, "long", "table", st)
GNext == UNCHANGED case
GSpec == GInit /\ [][GNext]_case
Emit == PrintT(<<"CASE", ToJson(case)>>)
=============================================================================
