SPECIFICATION Spec
CONSTANTS
  Mode = "c19"
INVARIANT Emit
CHECK_DEADLOCK FALSE
