----------------------------- MODULE Codec_Http -----------------------------
(***************************************************************************)
(* The HTTP message codecs of the library (C14 requests, C15 responses).   *)
(*                                                                         *)
(* A request value is [method, target, version, headers, body] with         *)
(* headers a sequence of [n, v] (strings) and body a byte sequence; the     *)
(* harness reports what Request::parse returned for Request::generate(r)    *)
(* as the same record shape.  Strings are compared as strings (the harness  *)
(* passes them through unchanged), bodies as bytes.                         *)
(***************************************************************************)
EXTENDS Naturals, Sequences, FiniteSets, Bytes

KnownMethods  == {"GET", "HEAD", "POST", "PUT", "DELETE", "CONNECT", "OPTIONS", "TRACE", "PATCH"}
KnownVersions == {"HTTP/0.9", "HTTP/1.0", "HTTP/1.1", "HTTP/2.0"}

\* ---------------------------------------------------------------- C14: round trip
\* obs = [outcome \in {"ok","err","panic"}, parsed]
ReqRoundTripViolations(r, obs) ==
    IF obs.outcome # "ok" THEN {"C14.well_formed_request_rejected"}
    ELSE LET p == obs.parsed IN
         (IF p.method = r.method /\ p.target = r.target /\ p.version = r.version THEN {} ELSE {"C14.request_line_not_round_tripped"})
         \cup (IF Len(p.headers) = Len(r.headers) THEN {} ELSE {"C14.header_count"})
         \cup (IF Len(p.headers) = Len(r.headers) /\ \E i \in 1..Len(r.headers) : p.headers[i].n # r.headers[i].n
               THEN {"C14.header_name"} ELSE {})
         \cup (IF Len(p.headers) = Len(r.headers) /\ \E i \in 1..Len(r.headers) : p.headers[i].v # r.headers[i].v
               THEN {"C14.header_value"} ELSE {})
         \cup (IF p.body = r.body THEN {} ELSE {"C14.body"})
         \* lookups[i] = <<value found under the name as written, under its upper-case form, under its lower-case form>>
         \cup (IF \A i \in 1..Len(obs.lookups) : obs.lookups[i][1] = obs.lookups[i][2] /\ obs.lookups[i][1] = obs.lookups[i][3]
               THEN {} ELSE {"C14.header_lookup_case_sensitive"})

\* ---------------------------------------------------------------- C14: accept / reject boundary
\* line = [method, sep1, target, sep2, version, parts] describes the request line the harness rendered:
\* cls \in {"valid", "unknown_method", "unknown_version", "incomplete", "not_utf8", "free"}
ReqAcceptViolations(cls, obs) ==
    CASE cls = "valid" -> (IF obs.outcome = "ok" THEN {} ELSE {"C14.valid_request_line_rejected"})
      [] cls \in {"unknown_method", "unknown_version", "incomplete", "not_utf8"} ->
            (IF obs.outcome = "err" THEN {} ELSE {"C14." \o cls \o "_accepted"})
      [] OTHER -> {}

\* ---------------------------------------------------------------- C15: responses
\* a response value: [status, phrase, headers (seq of [n, v]), parts (seq of [ct, lo, hi, size, body])]
RespRoundTripViolations(r, obs) ==
    IF obs.outcome # "ok" THEN {"C15.serialised_response_not_parsed"}
    ELSE LET p == obs.parsed IN
         (IF p.status = r.status /\ p.phrase = r.phrase THEN {} ELSE {"C15.status_or_reason"})
         \cup (IF \A i \in 1..Len(r.headers) : \E j \in 1..Len(p.headers) : p.headers[j] = r.headers[i] THEN {} ELSE {"C15.header_lost_or_changed"})
         \cup (IF Len(p.parts) = Len(r.parts) THEN {} ELSE {"C15.part_count"})
         \cup (IF Len(p.parts) = Len(r.parts) /\ \E i \in 1..Len(r.parts) : p.parts[i].body # r.parts[i].body THEN {"C15.body"} ELSE {})
         \cup (IF Len(p.parts) = Len(r.parts) /\ \E i \in 1..Len(r.parts) : p.parts[i].ct # r.parts[i].ct THEN {"C15.content_type"} ELSE {})
         \cup (IF Len(p.parts) = Len(r.parts) /\ \E i \in 1..Len(r.parts) :
                    (p.parts[i].lo # r.parts[i].lo \/ p.parts[i].hi # r.parts[i].hi \/ p.parts[i].size # r.parts[i].size)
               THEN {"C15.range"} ELSE {})
\* a status line with one field corrupted: rel relates the field to the registered <<code, phrase>> pair
StatusLineViolations(rel, obs) ==
    CASE rel = "exact" -> (IF obs.outcome = "ok" THEN {} ELSE {"C15.valid_status_line_rejected"})
      [] rel \in {"other_phrase", "truncated_char", "truncated_word", "extended_char", "extended_word", "empty_phrase"} ->
            (IF obs.outcome = "err" THEN {} ELSE {"C15.mismatched_reason_phrase_accepted"})
      [] rel = "unregistered_code" -> (IF obs.outcome = "err" THEN {} ELSE {"C15.unknown_status_accepted"})
      [] OTHER -> {}                                   \* letter case of the phrase: the statement is silent
\* a multipart/byteranges document with one structural element removed (brk); "exact" is the uncorrupted anchor
RespStructViolations(brk, obs) ==
    IF brk = "exact" THEN (IF obs.outcome = "ok" THEN {} ELSE {"C15.valid_multipart_rejected"})
    ELSE (IF obs.outcome = "err" THEN {} ELSE {"C15.broken_multipart_" \o brk \o "_accepted"})
RespRejectViolations(cls, obs) ==
    IF cls \in {"unknown_status", "phrase_mismatch", "no_opening_boundary", "no_closing_boundary", "part_without_blank_line"}
    THEN (IF obs.outcome = "err" THEN {} ELSE {"C15." \o cls \o "_accepted"})
    ELSE {}
=============================================================================
