SPECIFICATION Spec
CONSTANT First <- FirstQuick
CONSTANT Skew = 64
INVARIANTS GroupOK TailOK
CHECK_DEADLOCK FALSE
