SPECIFICATION Spec
CONSTANTS
  Mode = "c03"
  K = 2
INVARIANT Emit
CHECK_DEADLOCK FALSE
