SPECIFICATION SpecAllReleased
CONSTANTS
  N = 2
  T = 6
  Kind <- K_hist
  HoldLock = FALSE
  OneShot = FALSE
  Guarded = FALSE
  Spawned = 2
INVARIANT Safety NoWorkerLost
PROPERTIES EventuallyAllDone NoIdleStarvation
CHECK_DEADLOCK FALSE
