-------------------------- MODULE Codec_Multipart --------------------------
(***************************************************************************)
(* multipart/form-data bodies (C16).  A value is a sequence of parts        *)
(* [headers (seq of [n, v]), body (bytes)] and a boundary; the precondition *)
(* of the property -- the boundary does not occur in the data -- is checked  *)
(* here on the boundary's bytes (boundary_b, supplied with the event).      *)
(***************************************************************************)
EXTENDS Naturals, Sequences, FiniteSets, Bytes

BoundaryInData(parts, bb) == \E i \in 1..Len(parts) : Occurs(parts[i].body, bb)

\* obs = [outcome, parts]
MultipartViolations(v, bb, obs) ==
    IF BoundaryInData(v.parts, bb) THEN {}            \* outside the property's precondition
    ELSE IF obs.outcome # "ok" THEN {"C16.generated_body_not_parsed"}
    ELSE (IF Len(obs.parts) = Len(v.parts) THEN {} ELSE {"C16.part_count"})
         \cup (IF Len(obs.parts) = Len(v.parts) /\ \E i \in 1..Len(v.parts) : obs.parts[i].headers # v.parts[i].headers
               THEN {"C16.part_headers"} ELSE {})
         \cup (IF Len(obs.parts) = Len(v.parts) /\ \E i \in 1..Len(v.parts) : obs.parts[i].body # v.parts[i].body
               THEN {"C16.part_body"} ELSE {})
MultipartRejectViolations(cls, obs) ==
    IF obs.outcome = "err" THEN {} ELSE {"C16." \o cls \o "_accepted"}
MultipartStructViolations(brk, obs) ==
    IF brk = "exact" THEN (IF obs.outcome = "ok" THEN {} ELSE {"C16.valid_body_rejected"})
    ELSE (IF obs.outcome = "err" THEN {} ELSE {"C16." \o brk \o "_accepted"})
\* the boundary parameter as browsers send it: Content-Type: multipart/form-data; boundary=X  ->  X
BoundaryParamViolations(v, obs) ==
    IF obs.outcome = "ok" /\ obs.boundary = v.boundary THEN {} ELSE {"C16.boundary_parameter"}
=============================================================================
