----------------------------- MODULE Gen_Codec -----------------------------
(***************************************************************************)
(* Value generators for the library codecs (C14 - C17, C19).  Each initial  *)
(* state is one abstract value (or one near-miss document) that the harness *)
(* hands to the library's writer and reader.                                *)
(***************************************************************************)
EXTENDS Naturals, Sequences, FiniteSets, TLC, Json

CONSTANT Mode        \* "c14" | "c15" | "c16" | "c17"
VARIABLE case

H(n, v) == [n |-> n, v |-> v]

\* ---------------------------------------------------------------- C14
Methods  == {"GET", "HEAD", "POST", "PUT", "DELETE", "CONNECT", "OPTIONS", "TRACE", "PATCH"}
Versions == {"HTTP/0.9", "HTTP/1.0", "HTTP/1.1", "HTTP/2.0"}
Targets  == {"/", "/a/b.txt", "/p?x=1&y=2#f", "*", "example.com:443", "http://h/p?q", "/%41%20b",
             \* non-ASCII targets, incl. letters whose upper / lower case has another byte length (dotless i, long s, ligatures, I with dot)
             "/kırmızı", "/ılık", "/ﬁle/ſ", "/İstanbul?q=ß", "/ipa/ɐɫ", "/日本/😀.html"}
Values   == {"plain", "a:b", "a: b", "k=v; q=0.9", "  lead", "trail  ", "", "x: y: z", "\"quoted\", <a>", "é😀 utf-8"}
Names    == {"Host", "X-Custom", "content-type", "ACCEPT"}
HeaderLists == {<<>>} \cup {<<H(n, v)>> : n \in Names, v \in Values}
               \cup {<<H("Host", "h"), H(n, v), H("Z-Last", "z")>> : n \in {"X-Custom"}, v \in Values}
               \cup {<<H("A", v1), H("A", v2)>> : v1 \in {"1", "a: b"}, v2 \in {"2", ""}}
               \* the same name in several spellings: lookup must not depend on the spelling asked for
               \cup {<<H("x-id", "first"), H("X-Id", "second")>>, <<H("X-ID", "1"), H("x-id", "2"), H("X-Id", "3")>>,
                     <<H("Host", "h"), H("ACCEPT", "a"), H("Accept", "b"), H("accept", "c")>>}
               \cup {[i \in 1..50 |-> H("X-H", "v: " \o ToString(i))]}
Bodies   == {<<>>, <<97, 98, 99>>, <<13, 10, 97>>, <<97, 13, 10, 13, 10, 98>>, <<0, 1, 2>>, <<13, 10, 13, 10>>,
             <<10>>, <<58, 32, 58>>, [i \in 1..256 |-> i - 1]}
C14Values ==
    {[kind |-> "roundtrip", method |-> m, target |-> "/a", version |-> v, headers |-> <<H("Host", "h")>>, body |-> <<>>] : m \in Methods, v \in Versions}
    \cup {[kind |-> "roundtrip", method |-> "GET", target |-> t, version |-> "HTTP/1.1", headers |-> hs, body |-> <<>>] : t \in Targets, hs \in HeaderLists}
    \cup {[kind |-> "roundtrip", method |-> "POST", target |-> "/u", version |-> "HTTP/1.1", headers |-> hs, body |-> b] :
            hs \in {<<>>, <<H("Content-Type", "x: y")>>}, b \in Bodies}
\* near misses of the request line: rendered as the literal text `line` (or raw bytes), with the class the statement gives it
Line(cls, text) == [kind |-> "line", cls |-> cls, text |-> text, raw |-> <<>>]
C14Lines ==
    {Line("valid", m \o " /x " \o v) : m \in Methods, v \in Versions}
    \cup {Line("unknown_method", m \o " /x HTTP/1.1") : m \in {"BREW", "GETS", "G", "GE T", "PROPFIND", "get2"}}
    \cup {Line("unknown_version", "GET /x " \o v) : v \in {"HTTP/1.2", "HTTP/3.0", "HTTP", "HTTP/", "1.1", "HTTPS/1.1", "HTTP/1.1x"}}
    \cup {Line("incomplete", t) : t \in {"GET", "GET /x", "GET  ", "/x HTTP/1.1", "HTTP/1.1", "GET/xHTTP/1.1", ""}}
    \cup {Line("free", t) : t \in {"get /x HTTP/1.1", "Get /x http/1.1", "GET  /x HTTP/1.1", "GET /x  HTTP/1.1", "GET\t/x\tHTTP/1.1",
                                   " GET /x HTTP/1.1", "GET /x HTTP/1.1 ", "GET /a b HTTP/1.1", "GET  HTTP/1.1"}}
    \cup {[kind |-> "line", cls |-> "not_utf8", text |-> "", raw |-> r] :
            r \in {<<71, 69, 84, 32, 47, 255, 32, 72, 84, 84, 80, 47, 49, 46, 49>>, <<255, 254, 32, 47, 32, 72, 84, 84, 80, 47, 49, 46, 49>>,
                   <<71, 69, 84, 32, 47, 32, 72, 84, 84, 80, 47, 49, 46, 192>>}}

\* ---------------------------------------------------------------- C15
StatusSample == {<<200, "OK">>, <<206, "Partial Content">>, <<404, "Not Found">>, <<100, "Continue">>, <<511, "Network Authentication Required">>,
                 <<204, "No Content">>, <<416, "Range Not Satisfiable">>, <<301, "Moved Permanently">>}
Part(ct, lo, hi, size, body) == [ct |-> ct, lo |-> lo, hi |-> hi, size |-> size, body |-> body]
PartBodies == {<<>>, <<97>>, <<97, 98, 99, 100>>, <<13>>, <<10>>, <<13, 10>>, <<97, 13, 10>>, <<45, 45>>, <<0, 255, 13, 10, 0>>,
               <<45, 45, 83, 116, 114>>, [i \in 1..256 |-> i - 1], <<97, 98, 13, 10, 45, 45, 120>>}
C15Values ==
    {[kind |-> "resp", ser |-> sr, status |-> st[1], phrase |-> st[2], headers |-> hs, parts |-> <<Part("text/plain", 0, Len(b), Len(b), b)>>] :
        sr \in {"assoc", "method"}, st \in StatusSample, hs \in {<<>>, <<H("X-One", "1"), H("Server", "rws: x")>>}, b \in PartBodies}
    \* the same header name several times (each line is a header of its own), also with an empty value
    \cup {[kind |-> "resp", ser |-> sr, status |-> 200, phrase |-> "OK", headers |-> hs, parts |-> <<Part("text/plain", 0, 2, 2, <<104, 105>>)>>] :
            sr \in {"assoc", "method"},
            hs \in {<<H("X-Trace", "a"), H("X-Trace", "b")>>, <<H("Link", "<a>; rel=x"), H("X-Mid", "m"), H("Link", "<b>; rel=y")>>,
                    <<H("Warning", "1"), H("Warning", ""), H("Warning", "1")>>, <<H("Set-Cookie", "a=1"), H("Set-Cookie", "b=2")>>}}
    \* media types as they occur in practice: parameters, upper case, structured suffixes
    \cup {[kind |-> "resp", ser |-> sr, status |-> 200, phrase |-> "OK", headers |-> <<>>, parts |-> <<Part(ct, 0, 2, 2, <<104, 105>>)>>] :
            sr \in {"assoc", "method"}, ct \in {"text/html; charset=UTF-8", "Text/HTML", "application/vnd.api+json; profile=AbC", "IMAGE/PNG", "text/plain;charset=us-ascii"}}
    \cup {[kind |-> "resp", ser |-> sr, status |-> 206, phrase |-> "Partial Content", headers |-> <<>>,
           parts |-> <<Part("text/html; charset=UTF-8", 0, 2, 9, <<104, 105>>), Part("Application/JSON", 3, 5, 9, <<123, 125>>)>>] : sr \in {"assoc", "method"}}
    \cup {[kind |-> "resp", ser |-> sr, status |-> 206, phrase |-> "Partial Content", headers |-> <<H("X-One", "1")>>,
           parts |-> <<Part("text/plain", 0, Len(b1), 1000, b1), Part("image/png", 10, 10 + Len(b2), 1000, b2)>>] :
        sr \in {"assoc", "method"}, b1 \in PartBodies, b2 \in PartBodies}
    \cup {[kind |-> "resp", ser |-> sr, status |-> 206, phrase |-> "Partial Content", headers |-> <<>>,
           parts |-> [i \in 1..n |-> Part("text/html", i, i + 3, 99, <<96 + i, 13, 10, 96 + i>>)]] : sr \in {"assoc", "method"}, n \in 3..6}
AllStatuses == [kind |-> "resp_all_statuses"]
C15Corrupt == {[kind |-> "resp_corrupt", cls |-> c] : c \in {"unknown_status", "phrase_mismatch", "no_opening_boundary", "no_closing_boundary", "part_without_blank_line"}}
\* single-field corruptions of the status line, for every registered status (idx = position in the library's table) in a
\* single-part and a multipart document: rel says how the field relates to the registered one (Codec_Http!StatusLineViolations)
StatusLineRels == {"exact", "other_phrase", "truncated_char", "truncated_word", "extended_char", "extended_word", "empty_phrase",
                   "unregistered_code", "case_changed"}
\* broken multipart structure, systematically: n parts, one structural element removed (at part `at` where that applies)
C15Structs == {[kind |-> "resp_struct", n |-> n, brk |-> b, at |-> a] :
                 n \in 2..4, b \in {"exact", "no_opening", "no_closing", "no_boundary_param"}, a \in {1}}
              \cup {[kind |-> "resp_struct", n |-> n, brk |-> "no_blank_line", at |-> a] : n \in 2..4, a \in 1..4}
C15StatusLines == {[kind |-> "resp_status_line", idx |-> i, rel |-> rl, frame |-> fr] :
                     i \in 1..60, rl \in StatusLineRels, fr \in {"single", "multi"}}

\* ---------------------------------------------------------------- C16
MPart(hs, b) == [headers |-> hs, body |-> b]
CD(name) == H("Content-Disposition", "form-data; name=\"" \o name \o "\"")
MBodies == {<<>>, <<13>>, <<10>>, <<97>>, <<13, 10>>, <<10, 10>>, <<97, 10>>, <<97, 13>>, <<45, 45>>, <<97, 98, 99>>, <<13, 10, 97>>, <<97, 13, 10>>,
            <<97, 98, 10>>, <<255, 0, 10>>, <<97, 98, 13, 10>>, <<13, 10, 13, 10>>, <<45, 45, 120>>, [i \in 1..256 |-> i - 1]}
Boundaries == {"--b", "--boundary123", "----WebKitFormBoundaryAbC123", "--a-b-c", "--0", "--'()+_,./:=?", "x", "--------------------------123456789012345678901234"}
C16Values ==
    {[kind |-> "multipart", boundary |-> bd, parts |-> <<MPart(<<CD("f")>>, b)>>] : bd \in Boundaries, b \in MBodies}
    \cup {[kind |-> "multipart", boundary |-> "--b", parts |-> <<MPart(<<CD("f1")>>, b1), MPart(<<CD("f2"), H("Content-Type", "text/plain")>>, b2)>>] :
            b1 \in MBodies, b2 \in MBodies}
    \cup {[kind |-> "multipart", boundary |-> "--b", parts |-> [i \in 1..n |-> MPart(<<CD("f"), H("X-I", ToString(i))>>, <<96 + i>>)]] : n \in 3..8}
\* long bodies without any line feed (a reader that works line by line meets lines of 8 KiB, 16 KiB, 64 KiB), also ending in "--"
C16Long == {[kind |-> "multipart", boundary |-> "--b", parts |-> <<MPart(<<CD("f")>>, [i \in 1..n |-> IF i > n - 2 THEN t ELSE 65]), MPart(<<CD("g")>>, <<122>>)>>] :
              n \in {8191, 8192, 8193, 16384, 65536}, t \in {65, 45}}
\* header sets of every shape: without Content-Disposition, several headers, lower-case names, the same name twice
C16Headers == {[kind |-> "multipart", boundary |-> "--b", parts |-> <<MPart(hs, <<104, 105>>), MPart(<<CD("z")>>, <<122>>)>>] :
                 hs \in {<<H("Content-Type", "text/plain")>>, <<H("X-Only", "1")>>, <<H("content-disposition", "form-data; name=\"lc\"")>>,
                         <<H("Content-Type", "text/plain"), CD("second")>>, <<CD("a"), H("Content-Type", "text/plain; charset=UTF-8"), H("X-A", "1"), H("X-A", "2")>>,
                         <<H("Content-Transfer-Encoding", "binary"), H("Content-ID", "<x@y>")>>}}
C16Corrupt == {[kind |-> "multipart_corrupt", cls |-> c] : c \in {"no_opening_boundary", "no_closing_boundary", "part_without_headers"}}
\* the same for multipart/form-data: documents written by the library itself, then one structural element removed
C16Structs == {[kind |-> "multipart_struct", boundary |-> bd, n |-> n, brk |-> b, at |-> a] :
                 bd \in {"--b", "----WebKitFormBoundaryAbC123", "x"}, n \in 1..3,
                 b \in {"exact", "no_opening", "no_closing", "part_without_headers"}, a \in 1..3}
C16Extract == {[kind |-> "boundary_param", ct |-> "multipart/form-data; boundary=" \o b, boundary |-> b] :
                 b \in {"----WebKitFormBoundary7MA4YWxkTrZu0gW", "b", "a-b", "------------------------d74496d66958873e",
                        \* every punctuation character RFC 2046 allows in a boundary (bcharsnospace), as mail and HTTP clients use them
                        "----=_Part_0_123.456", "----=_NextPart_000_0001", "a=b", "=", "x'()+_,-./:=?y", "0123456789012345678901234567890123456789012345678901234567890123456789"}}
              \cup {[kind |-> "boundary_param", ct |-> ct, boundary |-> b] :
                     \* (quoted values and a mixed-case parameter name are legal RFC 2045 spellings, but not "as browsers send
                     \*  it": the library keeps the quotes resp. finds no boundary; the statement does not cover them)
                     <<ct, b>> \in {<<"multipart/form-data;boundary=nospace", "nospace">>,
                                    <<"multipart/form-data; charset=utf-8; boundary=after-param", "after-param">>}}

\* ---------------------------------------------------------------- C17
Atoms == {"a", "A", "2", "5", "F", "G", " ", "%", "&", "=", "+", "?", "#", "/", "é", "😀", "%2", "%25", "%3A", "%zz", "a b", "x=y&z", "100%", ";", ":", "~", "\"", "'"}
Strs2 == Atoms \cup {x \o y : x \in Atoms, y \in {"a", "%", "2", "5", "=", "&", "+", "3A", " "}}
C17Values ==
    {[kind |-> "map", pairs |-> <<<<k, v>>>>] : k \in Atoms, v \in Strs2}
    \cup {[kind |-> "map", pairs |-> <<<<k, "v">>>>] : k \in Strs2}
    \cup {[kind |-> "map", pairs |-> <<<<"k1", v1>>, <<"k2", v2>>>>] : v1 \in Atoms, v2 \in Atoms}
    \cup {[kind |-> "map", pairs |-> [i \in 1..n |-> <<"key" \o ToString(i), "v&=%" \o ToString(i)>>]] : n \in {0, 3, 20}}
    \* counts around powers of two; long values (the harness expands ["rep", unit, n] to the unit repeated n times): ASCII and
    \* multi-byte text of periods 2, 3, 4, 5 bytes, so that a cut at any byte offset splits a character in one of them
    \cup {[kind |-> "map", pairs |-> [i \in 1..n |-> <<"f" \o ToString(i), "v" \o ToString(i)>>]] : n \in {31, 32, 33, 64, 65}}
    \cup {[kind |-> "map", pairs |-> <<<<"long", <<"rep", u, n>>>>, <<"after", "x">>>>] :
            u \in {"a", "é", "aé", "😀", "a😀", "€"}, n \in {40, 100, 300}}
    \* a value (and a name) ending in each of the 64 possible final bytes of a multi-byte character: U+00C0 .. U+00FF
    \cup {[kind |-> "map", pairs |-> <<<<"k", v>>>>] : v \in {"xÀ", "xÁ", "xÂ", "xÃ", "xÄ", "xÅ", "xÆ", "xÇ", "xÈ", "xÉ", "xÊ", "xË", "xÌ", "xÍ", "xÎ", "xÏ", "xÐ", "xÑ", "xÒ", "xÓ", "xÔ", "xÕ", "xÖ", "x×", "xØ", "xÙ", "xÚ", "xÛ", "xÜ", "xÝ", "xÞ", "xß", "xà", "xá", "xâ", "xã", "xä", "xå", "xæ", "xç", "xè", "xé", "xê", "xë", "xì", "xí", "xî", "xï", "xð", "xñ", "xò", "xó", "xô", "xõ", "xö", "x÷", "xø", "xù", "xú", "xû", "xü", "xý", "xþ", "xÿ"}}
    \cup {[kind |-> "map", pairs |-> <<<<v, "1">>>>] : v \in {"xà", "xÅ", "xÿ"}}
    \* distinct names that differ only in letter case are distinct fields
    \cup {[kind |-> "map", pairs |-> <<<<"Name", "1">>, <<"name", "2">>, <<"NAME", "3">>>>],
          [kind |-> "map", pairs |-> <<<<"id", "a">>, <<"x", "y">>, <<"ID", "b">>>>]}

\* the dynamic endpoints (Endpoints.tla): the dispatch rule swept over methods x paths and their near misses x content types x
\* query yes/no, and the answers over field sets (ASCII texts here: the hard characters are the maps above)
NoQuery == [p |-> FALSE, pairs |-> <<>>]
QueryOf(pairs) == [p |-> TRUE, pairs |-> pairs]
OnePart == <<[named |-> TRUE, name |-> "f", body |-> "v"]>>
Endpoint(m, pc, pv, query, ct, form, parts, alloc) ==
    [kind |-> "endpoint", method |-> m, pcls |-> pc, pvar |-> pv, query |-> query, ctype |-> ct, form |-> form, parts |-> parts, alloc |-> alloc]
PairPool == <<<<"name", "a.bin">>, <<"lastModified", "5">>, <<"size", "77">>, <<"extra", "two words">>>>
SubSeqOf(seq, S) == LET F[i \in 0..Len(seq)] == IF i = 0 THEN <<>> ELSE IF i \in S THEN Append(F[i - 1], seq[i]) ELSE F[i - 1] IN F[Len(seq)]
EchoPairs == {<<<<"a", "1">>>>, <<<<"b", "two words">>, <<"a", "1">>>>, <<<<"A", "x">>, <<"a", "y">>, <<"aa", "x-y_z.~">>>>,
              <<<<"k1", "v">>, <<"k2", "v">>, <<"k3", "v">>, <<"k4", "v">>>>}
EPart(nm, b) == [named |-> TRUE, name |-> nm, body |-> b]
EUnnamed(b) == [named |-> FALSE, name |-> "", body |-> b]
EchoParts == {<<EPart("f", "v")>>, <<EPart("f", "")>>, <<EPart("b", "two words"), EPart("a", "1")>>, <<EPart("a", "1"), EPart("a", "2"), EPart("c", "x - y")>>,
              <<EUnnamed("v")>>, <<EPart("a", "1"), EUnnamed("v")>>, <<EPart("p1", "1"), EPart("p2", "2"), EPart("p3", "3"), EPart("p4", "4")>>}
C17Endpoints ==
    {Endpoint(m, pc, pv, qy, ct, <<<<"a", "1">>>>, OnePart, 10000) :
        m \in {"GET", "POST", "HEAD", "PUT"}, pc \in {"upload", "form_url", "form_get", "form_multi"},
        pv \in {"exact", "trailing_slash", "upper", "extended"}, qy \in {NoQuery, QueryOf(<<<<"k", "v">>>>)},
        ct \in {"none", "form_exact", "form_upper", "form_param", "multi", "multi_upper", "multi_two_blanks", "multi_no_boundary", "other"}}
    \* the announcement: every subset of the three required parameters (+ one more), four buffer sizes around the 4000 offset
    \cup {Endpoint("POST", "upload", "exact", QueryOf(SubSeqOf(PairPool, S)), "none", <<>>, <<>>, al) :
            S \in SUBSET (1..4) \ {{}}, al \in {10000, 4001, 4000, 3000}}
    \* the echoes over 1..4 fields in several orders
    \cup {Endpoint("GET", "form_get", "exact", QueryOf(ps), "none", <<>>, <<>>, 10000) : ps \in EchoPairs}
    \cup {Endpoint("POST", "form_url", "exact", NoQuery, "form_exact", ps, <<>>, 10000) : ps \in EchoPairs}
    \cup {Endpoint("POST", "form_multi", "exact", qy, "multi", <<>>, parts, 10000) : qy \in {NoQuery, QueryOf(<<<<"k", "v">>>>)}, parts \in EchoParts}

\* ---------------------------------------------------------------- C19
\* the supported model: an object with one optional field of every kind; numbers travel as decimal / float lexemes
\* an optional field is [p |-> present, v |-> value]; an absent field carries a neutral value of its own type
P(v) == [p |-> TRUE, v |-> v]
NoStr == [p |-> FALSE, v |-> ""]
NoSeq == [p |-> FALSE, v |-> <<>>]
IntLex == {"0", "1", "-1", "127", "-128", "255", "32767", "-32768", "65535", "2147483647", "-2147483648", "4294967295",
           "9223372036854775807", "-9223372036854775808", "18446744073709551615", "9007199254740993", "-9007199254740993",
           "170141183460469231731687303715884105727", "-170141183460469231731687303715884105728"}
FloatLex == {"0.0", "-0.0", "0.1", "-0.1", "1.0", "1e-7", "1e21", "5e-324", "1.7976931348623157e308", "0.30000000000000004",
             "123456.789", "-2.5e-3", "1e100", "3.0e0", "12345678901234567.0", "-1e-7", "-5e-324", "-1e21", "-1e16"}
StrVals == {"", "plain", "with space", "a,b", "{x}", "[1]", ":", "true", "null", "123", "é😀"}
LeafV(name, n) == [name |-> name, n |-> n, chain |-> <<>>, tags |-> NoSeq]
LeafT(name, n, tags) == [name |-> name, n |-> n, chain |-> <<>>, tags |-> P(tags)]   \* a leaf that carries an array
Sub(name, n) == [name |-> name, n |-> n]
LeafC(name, n, chain) == [name |-> name, n |-> n, chain |-> chain, tags |-> NoSeq]      \* chain: leaves nested inside this one
NestCounts == {0, 1, 2, 3, 15, 16, 17, 31, 32, 33, 63, 64, 65, 100, 129}
NoLeaf == [p |-> FALSE, v |-> LeafV("", "0")]
InnerV(label, flag, leaf) == [label |-> label, flag |-> flag, leaf |-> leaf, items |-> NoSeq]
InnerI(label, flag, leaf, items) == [label |-> label, flag |-> flag, leaf |-> leaf, items |-> P(items)]   \* a nested object that carries an array of objects
NoObj == [p |-> FALSE, v |-> InnerV("", "false", NoLeaf)]
Outer(sv, bv, iv, fv, obj, objs, ints, strs) ==
    [kind |-> "json_object", s |-> sv, b |-> bv, i |-> iv, f |-> fv, obj |-> obj, objs |-> objs, ints |-> ints, strs |-> strs]
BaseObj == P(InnerV("in", "true", P(LeafV("lf", "7"))))
Base == Outer(P("text"), P("true"), P("42"), P("1.5"), BaseObj, P(<<LeafV("a", "1"), LeafV("b", "-2")>>), P(<<"1", "-2", "3">>), P(<<"x", "y z">>))
AllAbsent == Outer(NoStr, NoStr, NoStr, NoStr, NoObj, NoSeq, NoSeq, NoSeq)
Pick(p, v, none) == IF p THEN P(v) ELSE none
C19Objects ==
    {Outer(Pick(p[1], "text", NoStr), Pick(p[2], "false", NoStr), Pick(p[3], "-42", NoStr), Pick(p[4], "-0.25", NoStr),
           IF p[5] THEN BaseObj ELSE NoObj, Pick(p[6], <<LeafV("a", "1")>>, NoSeq), Pick(p[7], <<"5">>, NoSeq), Pick(p[8], <<"s">>, NoSeq))
        : p \in [1..8 -> BOOLEAN]}
    \cup {[Base EXCEPT !.s = P(v)] : v \in StrVals}
    \cup {[Base EXCEPT !.b = P(v)] : v \in {"true", "false"}}
    \cup {[Base EXCEPT !.i = P(v)] : v \in IntLex}
    \cup {[AllAbsent EXCEPT !.i = P(v)] : v \in IntLex}
    \cup {[Base EXCEPT !.f = P(v)] : v \in FloatLex}
    \cup {[AllAbsent EXCEPT !.f = P(v)] : v \in FloatLex}
    \cup {[Base EXCEPT !.obj = P(InnerV(l, fl, lf))] : l \in {"", "x y"}, fl \in {"true", "false"},
                                                        lf \in {NoLeaf, P(LeafV("", "0")), P(LeafV("n", "-9223372036854775808"))}}
    \* nesting depth as data: the leaf of the nested object carries 1..3 further levels (depth 3..5 from the root),
    \* also inside an array of objects, with strings that contain structural characters at the deepest level
    \cup {[Base EXCEPT !.obj = P(InnerV("deep", "true", P(LeafC("l2", "2", ch))))] :
            ch \in {<<Sub("l3", "3")>>, <<Sub("l3", "-3"), Sub("l4", "4")>>, <<Sub("a,b", "1"), Sub("{x}[y]", "-2"), Sub("", "0")>>,
                     <<Sub("q: r", "170141183460469231731687303715884105727"), Sub("}", "1")>>}}
    \cup {[Base EXCEPT !.objs = P(<<LeafC("e1", "1", <<Sub("s1", "-1")>>), LeafV("e2", "2"), LeafC("e3", "3", <<Sub("s3", "3"), Sub("t3 ]", "33")>>)>>)]}
    \cup {[AllAbsent EXCEPT !.objs = P(<<LeafC("only", "1", <<Sub("x", "1"), Sub("y", "2"), Sub("z", "3")>>)>>)]}
    \cup {[Base EXCEPT !.objs = P(os)] : os \in {<<>>, <<LeafV("only", "-1")>>, [k \in 1..64 |-> LeafV("k", ToString(k))]}}
    \* containers inside containers, every kind inside every kind, each with the element counts of the count principle:
    \* an array of objects inside the nested object, an array of integers inside a leaf (inside the nested object,
    \* inside the array of objects, inside the array of objects of the nested object)
    \cup {[Base EXCEPT !.obj = P(InnerI("w", "true", NoLeaf, [k \in 1..n |-> LeafV("i", ToString(k))]))] : n \in NestCounts}
    \cup {[Base EXCEPT !.obj = P(InnerV("t", "false", P(LeafT("lt", "1", [k \in 1..n |-> ToString(k)]))))] : n \in NestCounts}
    \cup {[Base EXCEPT !.objs = P([k \in 1..n |-> LeafT("r", ToString(k), IF k % 3 = 0 THEN <<>> ELSE <<ToString(k), "-1">>)])] : n \in NestCounts \ {0}}
    \cup {[AllAbsent EXCEPT !.obj = P(InnerI("both", "true", P(LeafT("x", "0", <<"7">>)), [k \in 1..n |-> LeafT("j", "-" \o ToString(k), <<ToString(k)>>)]))] : n \in {1, 2, 33, 65}}
    \cup {[Base EXCEPT !.objs = P(<<LeafT("deep", "1", <<"1", "2">>), [LeafC("c", "2", <<Sub("s", "3")>>) EXCEPT !.tags = P(<<"-5">>)]>>)]}
    \cup {[Base EXCEPT !.ints = P(xs)] : xs \in {<<>>, <<"0">>, <<"-1">>, <<"-1", "-2">>, [k \in 1..64 |-> ToString(k)]}}
    \cup {[Base EXCEPT !.strs = P(xs)] : xs \in {<<>>, <<"">>, <<"a,b", "c">>, <<"[", "]">>, [k \in 1..64 |-> "s" \o ToString(k)]}}
\* homogeneous arrays of every element type: [kind, ty, items (lexemes)]
Arr(ty, items) == [kind |-> "json_array", ty |-> ty, items |-> items]
Extremes(ty) ==
    CASE ty = "i8" -> {"-128", "127"} [] ty = "i16" -> {"-32768", "32767"} [] ty = "i32" -> {"-2147483648", "2147483647"}
      [] ty = "i64" -> {"-9223372036854775808", "9223372036854775807"}
      [] ty = "i128" -> {"-170141183460469231731687303715884105728", "170141183460469231731687303715884105727"}
      [] ty = "u8" -> {"0", "255"} [] ty = "u16" -> {"0", "65535"} [] ty = "u32" -> {"0", "4294967295"}
      [] ty = "u64" -> {"0", "18446744073709551615"} [] ty = "u128" -> {"0", "340282366920938463463374607431768211455"}
IntTypes == {"i8", "i16", "i32", "i64", "i128", "u8", "u16", "u32", "u64", "u128"}
C19Arrays ==
    UNION {{Arr(ty, <<>>), Arr(ty, <<"0">>), Arr(ty, <<"1", "2">>), Arr(ty, [k \in 1..64 |-> ToString(k)])}
           \cup {Arr(ty, <<e>>) : e \in Extremes(ty)} \cup {Arr(ty, <<"1", e, "0">>) : e \in Extremes(ty)} : ty \in IntTypes}
    \cup {Arr(ty, <<"-1">>) : ty \in {"i8", "i16", "i32", "i64", "i128"}}
    \cup {Arr("f64", xs) : xs \in {<<>>, <<"0.0">>, <<"-0.0", "0.1">>, <<"1e21", "5e-324", "1.7976931348623157e308">>, <<"0.30000000000000004">>, <<"-2.5e-3", "1e-7">>,
                                  \* negative values of every magnitude class (where a writer might switch to exponent notation)
                                  <<"-1e-7">>, <<"1.0", "-2.5e-7", "4.0">>, <<"-5e-324", "-1e21", "-1.7976931348623157e308">>, <<"-1e-5", "-1e16", "1e16">>}}
    \cup {Arr("f32", xs) : xs \in {<<>>, <<"0.0">>, <<"0.1", "-0.1">>, <<"3.4028235e38", "1e-45">>, <<"-1e-7", "-3.4028235e38", "-1e-45">>, <<"2.5", "-2.5e-6">>}}
    \cup {Arr("string", xs) : xs \in {<<>>, <<"">>, <<"a">>, <<"a,b", "c d">>, <<"[x]", "{y}">>, <<"é😀", "z">>, [k \in 1..64 |-> "s" \o ToString(k)]}}
    \cup {Arr("bool", xs) : xs \in {<<>>, <<"true">>, <<"false", "true", "false">>}}
    \cup {Arr("null", xs) : xs \in {<<>>, <<"null">>, <<"null", "null">>}}

\* property names as real structs have them
C19Odd == {[kind |-> "json_odd", fields |-> f] : f \in
             {("userName" :> u) @@ ("ID" :> id) @@ ("x" :> b) @@ ("xx" :> "two") @@ ("X" :> "upper") @@ ("a_b2" :> "-7") @@ ("true" :> "yes") @@ ("null" :> "0") @@ ("Is Set" :> b)
                : u \in {"alice", "", "a,b: {c}"}, id \in {"1", "-170141183460469231731687303715884105728"}, b \in {"true", "false"}}}
Cases == CASE Mode = "c19" -> C19Objects \cup C19Arrays \cup C19Odd
           [] Mode = "c14" -> C14Values \cup C14Lines
           [] Mode = "c15" -> C15Values \cup {AllStatuses} \cup C15Corrupt \cup C15StatusLines \cup C15Structs
           [] Mode = "c16" -> C16Values \cup C16Corrupt \cup C16Extract \cup C16Structs \cup C16Long \cup C16Headers
           [] Mode = "c17" -> C17Values \cup C17Endpoints
Init == case \in Cases
Next == UNCHANGED case
Spec == Init /\ [][Next]_case
Emit == PrintT(<<"CASE", ToJson(case)>>)
=============================================================================
