-------------------------------- MODULE Pool --------------------------------
(***************************************************************************)
(* The worker pool of rws (src/thread_pool/mod.rs): an mpsc channel whose  *)
(* receiving end sits behind Arc<Mutex<Receiver>>, and N worker threads    *)
(* each running                                                             *)
(*                                                                         *)
(*     loop { let g = receiver.lock();          \* Lock(w)                  *)
(*            let job = g.recv();               \* Recv(w): blocks while    *)
(*                                              \*   the queue is empty,    *)
(*                                              \*   HOLDING the lock; the  *)
(*                                              \*   temporary guard is     *)
(*                                              \*   dropped at the end of  *)
(*                                              \*   the statement          *)
(*            job();  }                         \* Start(w) ... Finish(w)   *)
(*                                                                         *)
(* and ThreadPool::execute = Sender::send      \* Submit                    *)
(*                                                                         *)
(* One action per critical section of the code.  Task behaviours:           *)
(*   "instant" returns at once; "panic" fails internally (unwinds);         *)
(*   "rdv" blocks until N rendezvous tasks are                              *)
(*   running together (a reusable barrier of N parties); "long" returns     *)
(*   when its environment lets it.                                          *)
(*                                                                         *)
(* The constants HoldLock, OneShot and Spawned describe deliberate          *)
(* deviations (spec mutants): keeping the guard alive across job(), a       *)
(* worker loop that exits after one task, and fewer threads than N.  With   *)
(* HoldLock = FALSE, OneShot = FALSE, Spawned = N this is the pinned code.  *)
(***************************************************************************)
EXTENDS Naturals, Sequences, FiniteSets

CONSTANTS N,          \* pool size
          T,          \* number of tasks that will be submitted (ids 1..T, in this order)
          Kind,       \* [1..T -> {"instant", "rdv", "long"}]
          HoldLock,   \* mutant: lock released only when the job returns
          OneShot,    \* mutant: a worker leaves its loop after one job
          Spawned,    \* number of worker threads actually created (N in the real code)
          Guarded     \* a job that fails internally (kind "panic") does not end its worker (FALSE: no unwind guard)

NONE == 0                       \* "no worker" / "no task"
Worker == 1..N
Task == 1..T

VARIABLES queue,      \* channel content: sequence of task ids, FIFO
          next,       \* next task id the submitter will send
          lock,       \* holder of the receiver mutex, or NONE
          pc,         \* pc[w] \in {"idle", "locked", "got", "running", "exited"}
          cur,        \* cur[w]: task held by worker w (NONE if none)
          runs,       \* runs[t]: how many times task t has been started
          fin,        \* fin[t]: task t returned
          arrived,    \* number of rdv tasks that have reached the barrier so far
          arr         \* arr[t]: t was the arr[t]-th task to reach the barrier (0: not yet)

vars == <<queue, next, lock, pc, cur, runs, fin, arrived, arr>>

TypeOK == /\ queue \in Seq(Task)
          /\ next \in 1..(T + 1)
          /\ lock \in Worker \cup {NONE}
          /\ pc \in [Worker -> {"idle", "locked", "got", "running", "exited"}]
          /\ cur \in [Worker -> Task \cup {NONE}]
          /\ runs \in [Task -> Nat]
          /\ fin \in [Task -> BOOLEAN]
          /\ arrived \in Nat
          /\ arr \in [Task -> Nat]

Init == /\ queue = <<>> /\ next = 1 /\ lock = NONE
        /\ pc = [w \in Worker |-> IF w <= Spawned THEN "idle" ELSE "exited"]
        /\ cur = [w \in Worker |-> NONE]
        /\ runs = [t \in Task |-> 0]
        /\ fin = [t \in Task |-> FALSE]
        /\ arrived = 0
        /\ arr = [t \in Task |-> 0]

\* ThreadPool::execute -> Sender::send (unbounded channel: never blocks)
Submit ==
    /\ next <= T
    /\ queue' = Append(queue, next)
    /\ next' = next + 1
    /\ UNCHANGED <<lock, pc, cur, runs, fin, arrived, arr>>

\* receiver.lock() returns
Lock(w) ==
    /\ pc[w] = "idle" /\ lock = NONE
    /\ lock' = w
    /\ pc' = [pc EXCEPT ![w] = "locked"]
    /\ UNCHANGED <<queue, next, cur, runs, fin, arrived, arr>>

\* recv() returns a job; the guard (a temporary) is dropped with the statement
Recv(w) ==
    /\ pc[w] = "locked" /\ queue # <<>>
    /\ cur' = [cur EXCEPT ![w] = Head(queue)]
    /\ queue' = Tail(queue)
    /\ lock' = IF HoldLock THEN lock ELSE NONE
    /\ pc' = [pc EXCEPT ![w] = "got"]
    /\ UNCHANGED <<next, runs, fin, arrived, arr>>

\* job() is entered
Start(w) ==
    /\ pc[w] = "got"
    /\ pc' = [pc EXCEPT ![w] = "running"]
    /\ runs' = [runs EXCEPT ![cur[w]] = @ + 1]
    /\ arrived' = IF Kind[cur[w]] = "rdv" THEN arrived + 1 ELSE arrived
    /\ arr' = IF Kind[cur[w]] = "rdv" THEN [arr EXCEPT ![cur[w]] = arrived + 1] ELSE arr
    /\ UNCHANGED <<queue, next, lock, cur, fin>>

\* a rendezvous task that arrived as the k-th one belongs to generation (k-1) \div N of the reusable
\* barrier and may leave it once that generation is complete
CanFinish(w) ==
    IF Kind[cur[w]] = "rdv"
    THEN arrived >= (((arr[cur[w]] - 1) \div N) + 1) * N
    ELSE TRUE

\* job() returns
Finish(w) ==
    /\ pc[w] = "running" /\ CanFinish(w)
    /\ fin' = [fin EXCEPT ![cur[w]] = TRUE]
    /\ pc' = [pc EXCEPT ![w] = IF OneShot \/ (Kind[cur[w]] = "panic" /\ ~Guarded) THEN "exited" ELSE "idle"]
    /\ cur' = [cur EXCEPT ![w] = NONE]
    /\ lock' = IF HoldLock /\ lock = w THEN NONE ELSE lock
    /\ UNCHANGED <<queue, next, runs, arrived, arr>>

\* Grain-of-atomicity bridge for trace validation: Recv(v) immediately followed by Lock(w), as ONE step.
\* (The guard is dropped inside the recv statement, before the Received hook of v can log, so the log may show
\* w's LockAcquired first.  TLC's action composition \cdot is incomplete, hence the explicit form; it is
\* exactly Recv(v) \cdot Lock(w) for HoldLock = FALSE.)
RecvThenLock(v, w) ==
    /\ ~HoldLock /\ v # w
    /\ pc[v] = "locked" /\ lock = v /\ queue # <<>> /\ pc[w] = "idle"
    /\ cur' = [cur EXCEPT ![v] = Head(queue)]
    /\ queue' = Tail(queue)
    /\ lock' = w
    /\ pc' = [pc EXCEPT ![v] = "got", ![w] = "locked"]
    /\ UNCHANGED <<next, runs, fin, arrived, arr>>

WorkerStep(w) == Lock(w) \/ Recv(w) \/ Start(w) \/ Finish(w)
Next == Submit \/ \E w \in Worker : WorkerStep(w)

\* "long" tasks finish only when their environment says so: no fairness on their Finish
FinishShort(w) == Finish(w) /\ Kind[cur[w]] # "long"
FinishLong(w)  == Finish(w) /\ Kind[cur[w]] = "long"

Fairness == /\ WF_vars(Submit)
            /\ \A w \in Worker : WF_vars(Lock(w)) /\ WF_vars(Recv(w)) /\ WF_vars(Start(w)) /\ WF_vars(FinishShort(w))
Spec      == Init /\ [][Next]_vars /\ Fairness
\* the same with long tasks eventually released
SpecAllReleased == Spec /\ \A w \in Worker : WF_vars(FinishLong(w))

-----------------------------------------------------------------------------
\* C07, safety part
InQueue(t)   == \E i \in DOMAIN queue : queue[i] = t
Held(t)      == \E w \in Worker : cur[w] = t /\ pc[w] \in {"got", "running"}
ExactlyOnce  == \A t \in Task : runs[t] <= 1 /\ (fin[t] => runs[t] = 1)
NoLoss       == \A t \in Task : t < next => (fin[t] \/ InQueue(t) \/ Held(t))
NoDuplicate  == \A t \in Task : ~(InQueue(t) /\ (Held(t) \/ fin[t]))
                /\ \A i, j \in DOMAIN queue : queue[i] = queue[j] => i = j
                /\ \A v, w \in Worker : (v # w /\ cur[v] # NONE) => cur[v] # cur[w]
MutexOK      == (lock # NONE) => pc[lock] \in (IF HoldLock THEN {"locked", "got", "running"} ELSE {"locked"})
Fifo         == \A i, j \in DOMAIN queue : i < j => queue[i] < queue[j]
Safety       == TypeOK /\ ExactlyOnce /\ NoLoss /\ NoDuplicate /\ MutexOK /\ Fifo

\* C07, progress part
AllSubmitted == next = T + 1
AllDone      == \A t \in Task : fin[t]
ShortDone    == \A t \in Task : Kind[t] # "long" => fin[t]
\* every task completes when long tasks are eventually released (needs: rdv tasks come in multiples of N);
\* the rendezvous of N completing is "N at a time"
EventuallyAllDone   == <>AllDone
\* a slow task delays at most one worker: with fewer than N long tasks never released, everything else completes
EventuallyShortDone == <>ShortDone
\* no task is left waiting while a worker is idle and the lock is free
NoIdleStarvation    == []<>~(queue # <<>> /\ lock = NONE /\ \E w \in Worker : pc[w] = "idle")
\* up to N simultaneously: some reachable state has N running tasks (checked as a violated invariant in MC_Pool)
NotAllRunning       == ~(\A w \in Worker : pc[w] = "running")
\* C06 at the level of the pool: no past task permanently removes a worker
NoWorkerLost        == \A w \in Worker : w <= Spawned => pc[w] # "exited"

=============================================================================
