------------------------------ MODULE HttpMsg ------------------------------
(***************************************************************************)
(* HTTP/1.1 responses as the harness projects them, and the message-level  *)
(* predicates of C05 (well-formedness) and C10 (hardening headers).         *)
(*                                                                         *)
(* Projection (mechanical, no repair, no defaults): the raw bytes written   *)
(* to the connection are split at the first CRLF CRLF (head_ok = FALSE if   *)
(* there is none), the head at every CRLF; the first line is sl; every      *)
(* other line is split at its first ':' into                                *)
(*    nb / vb   name and value bytes (vb: everything after the colon)       *)
(*    n / nl / v  the same as strings: name, ASCII-lower-cased name, value  *)
(*                with optional white space trimmed (TLC strings are        *)
(*                opaque, so literals are compared as strings and grammar   *)
(*                is checked on the bytes)                                  *)
(*    colon     FALSE when the line has no ':' at all                       *)
(* body is everything after the blank line; status is the three digits      *)
(* after the first space of sl read as a number (0 if they are not digits). *)
(***************************************************************************)
EXTENDS Naturals, Sequences, FiniteSets, Bytes

\* ------------------------------------------------------------------ header access
HdrIdx(r, nl)   == {i \in 1..Len(r.hs) : r.hs[i].nl = nl}
HdrCount(r, nl) == Cardinality(HdrIdx(r, nl))
HasHdr(r, nl)   == HdrIdx(r, nl) # {}
FirstIdx(r, nl) == CHOOSE i \in HdrIdx(r, nl) : \A j \in HdrIdx(r, nl) : i <= j
HdrV(r, nl)     == r.hs[FirstIdx(r, nl)].v           \* value as string (OWS-trimmed)
HdrVb(r, nl)    == TrimOws(r.hs[FirstIdx(r, nl)].vb) \* value as bytes (OWS-trimmed)
HdrVs(r, nl)    == {r.hs[i].v : i \in HdrIdx(r, nl)}
ExactlyOne(r, nl, v) == HdrCount(r, nl) = 1 /\ HdrV(r, nl) = v
HdrNames(r)     == {r.hs[i].nl : i \in 1..Len(r.hs)}

\* Content-Length as a number (only meaningful when ContentLengthOk)
ContentLengthOk(r) == HdrCount(r, "content-length") = 1 /\ SmallDecimal(HdrVb(r, "content-length"))
ContentLength(r)   == DecVal(HdrVb(r, "content-length"))

\* comma separated list value -> set of OWS-trimmed members (bytes)
ListMembers(vb) == {TrimOws(SplitByte(vb, COMMA)[k]) : k \in 1..Len(SplitByte(vb, COMMA))}

\* ------------------------------------------------------------------ C05: status line and registered codes
\* the registered status codes with their reason phrases (RFC 9110 and the IANA registry subset rws knows)
StatusTable == {
  <<100, "Continue">>, <<101, "Switching Protocols">>, <<102, "Processing">>, <<103, "Early Hints">>,
  <<200, "OK">>, <<201, "Created">>, <<202, "Accepted">>, <<203, "Non-Authoritative Information">>,
  <<204, "No Content">>, <<205, "Reset Content">>, <<206, "Partial Content">>, <<207, "Multi-Status">>,
  <<208, "Already Reported">>, <<226, "IM Used">>,
  <<300, "Multiple Choices">>, <<301, "Moved Permanently">>, <<302, "Found">>, <<303, "See Other">>,
  <<304, "Not Modified">>, <<307, "Temporary Redirect">>, <<308, "Permanent Redirect">>,
  <<400, "Bad Request">>, <<401, "Unauthorized">>, <<402, "Payment Required">>, <<403, "Forbidden">>,
  <<404, "Not Found">>, <<405, "Method Not Allowed">>, <<406, "Not Acceptable">>,
  <<407, "Proxy Authentication Required">>, <<408, "Request Timeout">>, <<409, "Conflict">>, <<410, "Gone">>,
  <<411, "Length Required">>, <<412, "Precondition Failed">>, <<413, "Payload Too Large">>,
  <<414, "URI Too Long">>, <<415, "Unsupported Media Type">>, <<416, "Range Not Satisfiable">>,
  <<417, "Expectation Failed">>, <<418, "I'm a teapot">>, <<421, "Misdirected Request">>,
  <<422, "Unprocessable Entity">>, <<423, "Locked">>, <<424, "Failed Dependency">>, <<425, "Too Early">>,
  <<426, "Upgrade Required">>, <<428, "Precondition Required">>, <<429, "Too Many Requests">>,
  <<431, "Request Header Fields Too Large">>, <<451, "Unavailable For Legal Reasons">>,
  <<500, "Internal Server Error">>, <<501, "Not Implemented">>, <<502, "Bad Gateway">>,
  <<503, "Service Unavailable">>, <<504, "Gateway Timeout">>, <<505, "HTTP Version Not Supported">>,
  <<506, "Variant Also Negotiates">>, <<507, "Insufficient Storage">>, <<508, "Loop Detected">>,
  <<510, "Not Extended">>, <<511, "Network Authentication Required">> }

\* sl = "HTTP/1.1" SP 3DIGIT SP phrase, checked on bytes; the phrase is compared as a string (r.phrase is the
\* text after the second space, projected as a string)
StatusLineShape(r) ==
    LET s == r.sl IN
    /\ Len(s) >= 13
    /\ SubSeq(s, 1, 9) = <<72, 84, 84, 80, 47, 49, 46, 49, 32>>          \* "HTTP/1.1 "
    /\ IsDigit(s[10]) /\ IsDigit(s[11]) /\ IsDigit(s[12]) /\ s[13] = SP
    /\ \A i \in 1..Len(s) : s[i] # CR /\ s[i] # LF /\ s[i] # NUL
    /\ r.status = (s[10] - 48) * 100 + (s[11] - 48) * 10 + (s[12] - 48)
StatusRegistered(r) == <<r.status, r.phrase>> \in StatusTable

\* a header line: token ":" OWS value, no CR / LF anywhere in the line
HeaderLineOk(h) ==
    /\ h.colon
    /\ Len(h.nb) >= 1 /\ \A i \in 1..Len(h.nb) : IsTchar(h.nb[i])
    /\ \A i \in 1..Len(h.vb) : h.vb[i] # CR /\ h.vb[i] # LF       \* "no line break inside" (C05 says nothing about NUL)

FramingHeaders == {"content-length", "transfer-encoding", "content-type", "content-range"}

\* method: the request method ("" when the request could not be parsed)
WellFormed(r, method) ==
    /\ r.head_ok
    /\ StatusLineShape(r)
    /\ StatusRegistered(r)
    /\ \A i \in 1..Len(r.hs) : HeaderLineOk(r.hs[i])
    /\ \A f \in FramingHeaders : HdrCount(r, f) <= 1
    /\ (method \in {"HEAD", "OPTIONS"} => r.body = <<>>)
    /\ ((method \notin {"HEAD", "OPTIONS"} /\ HasHdr(r, "content-length"))
            => ContentLengthOk(r) /\ ContentLength(r) = r.body_len)
    /\ (HasHdr(r, "content-length") => IsDecimal(HdrVb(r, "content-length")))

WellFormedViolations(r, method) ==
    (IF ~r.head_ok THEN {"C05.head_not_terminated"} ELSE {})
    \cup (IF r.head_ok /\ ~StatusLineShape(r) THEN {"C05.status_line"} ELSE {})
    \cup (IF r.head_ok /\ StatusLineShape(r) /\ ~StatusRegistered(r) THEN {"C05.status_not_registered"} ELSE {})
    \cup (IF \E i \in 1..Len(r.hs) : ~HeaderLineOk(r.hs[i]) THEN {"C05.header_line"} ELSE {})
    \cup (IF \E f \in FramingHeaders : HdrCount(r, f) > 1 THEN {"C05.duplicate_framing_header"} ELSE {})
    \cup (IF method \in {"HEAD", "OPTIONS"} /\ r.body_len # 0 THEN {"C05.body_on_head_or_options"} ELSE {})
    \cup (IF method \notin {"HEAD", "OPTIONS"} /\ HasHdr(r, "content-length")
             /\ ~(ContentLengthOk(r) /\ ContentLength(r) = r.body_len) THEN {"C05.content_length"} ELSE {})

\* ------------------------------------------------------------------ C10: hardening and no-cache headers
NoStore == <<110, 111, 45, 115, 116, 111, 114, 101>>      \* "no-store"
OriginB == <<79, 114, 105, 103, 105, 110>>                \* "Origin"
HardeningViolations(r) ==
    (IF ExactlyOne(r, "x-content-type-options", "nosniff") THEN {} ELSE {"C10.x-content-type-options"})
    \cup (IF ExactlyOne(r, "x-frame-options", "SAMEORIGIN") THEN {} ELSE {"C10.x-frame-options"})
    \cup (IF ExactlyOne(r, "accept-ranges", "bytes") THEN {} ELSE {"C10.accept-ranges"})
    \cup (IF HdrCount(r, "cache-control") = 1 /\ NoStore \in ListMembers(HdrVb(r, "cache-control"))
          THEN {} ELSE {"C10.cache-control"})
    \cup (IF HdrCount(r, "accept-ch") = 1 /\ ListMembers(HdrVb(r, "accept-ch")) # {<<>>} THEN {} ELSE {"C10.accept-ch"})
    \cup (IF HdrCount(r, "vary") = 1 /\ \E m \in ListMembers(HdrVb(r, "vary")) : EqIgnoreCase(m, OriginB)
          THEN {} ELSE {"C10.vary"})
Hardened(r) == HardeningViolations(r) = {}

=============================================================================
