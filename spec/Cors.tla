-------------------------------- MODULE Cors --------------------------------
(***************************************************************************)
(* The cross-origin policy of rws (C11, and the preflight half of C09).    *)
(*                                                                         *)
(* cfg = [all      allow-all switch                                        *)
(*        origins  sequence of configured origins (strings)                *)
(*        creds    BOOLEAN                                                  *)
(*        methods, headers, expose, maxage   configured values (strings,    *)
(*                 comma separated lists as configured) and, for the        *)
(*                 case-insensitive ones, headers_b / expose_b as bytes]    *)
(* q   = [method, has_origin, origin, ...]  the request                     *)
(* The grants of a response are its Access-Control-* header lines.          *)
(***************************************************************************)
EXTENDS Naturals, Sequences, FiniteSets, Bytes, HttpMsg

ACPrefix == <<97, 99, 99, 101, 115, 115, 45, 99, 111, 110, 116, 114, 111, 108, 45>>   \* "access-control-"
IsAC(h)  == StartsWith(Lower(h.nb), ACPrefix)
ACIdx(r) == {i \in 1..Len(r.hs) : IsAC(r.hs[i])}
ACNames(r) == {r.hs[i].nl : i \in ACIdx(r)}

AllowOrigin == "access-control-allow-origin"
AllowCreds  == "access-control-allow-credentials"
AllowMeth   == "access-control-allow-methods"
AllowHdrs   == "access-control-allow-headers"
ExposeHdrs  == "access-control-expose-headers"
MaxAge      == "access-control-max-age"

Configured(cfg, origin) == \E i \in 1..Len(cfg.origins) : cfg.origins[i] = origin     \* exact string equality

\* the set of violated clauses of C11 for response r to request q under configuration cfg
CorsViolations(cfg, q, r) ==
    IF ~q.has_origin THEN
        (IF ACIdx(r) = {} THEN {} ELSE {"C11.grants_without_origin"})
    ELSE IF cfg.all THEN
        (IF ExactlyOne(r, AllowOrigin, q.origin) THEN {} ELSE {"C11.allow_all_origin_not_echoed"})
        \cup (IF ExactlyOne(r, AllowCreds, "true") THEN {} ELSE {"C11.allow_all_credentials"})
    ELSE IF Configured(cfg, q.origin) THEN
        (IF ExactlyOne(r, AllowOrigin, q.origin) THEN {} ELSE {"C11.configured_origin_not_granted"})
        \cup (IF cfg.creds THEN (IF ExactlyOne(r, AllowCreds, "true") THEN {} ELSE {"C11.credentials_missing"})
              ELSE (IF HasHdr(r, AllowCreds) THEN {"C11.credentials_not_configured"} ELSE {}))
        \cup (IF q.method = "OPTIONS" THEN
                 (IF ExactlyOne(r, AllowMeth, cfg.methods) THEN {} ELSE {"C11.preflight_methods"})
                 \cup (IF HdrCount(r, AllowHdrs) = 1 /\ EqIgnoreCase(HdrVb(r, AllowHdrs), cfg.headers_b)
                       THEN {} ELSE {"C11.preflight_headers"})
                 \cup (IF ExactlyOne(r, MaxAge, cfg.maxage) THEN {} ELSE {"C11.preflight_max_age"})
              ELSE (IF {AllowMeth, AllowHdrs, MaxAge} \cap HdrNames(r) = {} THEN {} ELSE {"C11.preflight_grants_on_non_preflight"}))
    ELSE
        (IF ACIdx(r) = {} THEN {} ELSE {"C11.grant_to_unconfigured_origin"})

=============================================================================
