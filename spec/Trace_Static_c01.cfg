SPECIFICATION TSpec
CONSTANTS
  Props = {"C01"}
INVARIANT Done
POSTCONDITION AllConsumed
CHECK_DEADLOCK FALSE
