------------------------------ MODULE Mutation ------------------------------
(***************************************************************************)
(* Structure-aware mutation of HTTP requests, as a generator for C04, C05,  *)
(* C10 (every connection is answered, well-formed, hardened) and for the    *)
(* request-parser half of C20.                                              *)
(*                                                                         *)
(* A document is a sequence of tokens [role, k, s, n, b]:                   *)
(*   k = "s"    the literal text s                                          *)
(*   k = "b"    the raw bytes b                                             *)
(*   k = "rep"  the text p, then the text s repeated n times               *)
(*   k = "pad"  the byte 'a' repeated until the document so far is n bytes  *)
(* role names the grammatical position (method, sp, target, version, crlf,  *)
(* hname, hsep, hvalue, blank, body), which decides what a token may be     *)
(* replaced by.  The harness concatenates the tokens; nothing else.         *)
(***************************************************************************)
EXTENDS Naturals, Sequences, FiniteSets

Tk(role, s)        == [role |-> role, k |-> "s", s |-> s, n |-> 0, b |-> <<>>, p |-> ""]
TkB(role, b)       == [role |-> role, k |-> "b", s |-> "", n |-> 0, b |-> b, p |-> ""]
TkRep(role, s, n)  == [role |-> role, k |-> "rep", s |-> s, n |-> n, b |-> <<>>, p |-> ""]
TkPad(role, n)     == [role |-> role, k |-> "pad", s |-> "", n |-> n, b |-> <<>>, p |-> ""]
TkPre(role, p, s, n) == [role |-> role, k |-> "rep", s |-> s, n |-> n, b |-> <<>>, p |-> p]     \* the prefix p, then s repeated n times

CRLF == Tk("crlf", "\r\n")
SP   == Tk("sp", " ")
Hdr(name, value) == <<Tk("hname", name), Tk("hsep", ": "), Tk("hvalue", value), CRLF>>
HdrC(name, value) == <<Tk("hname", name), Tk("hsep", ":"), Tk("hvalue", value), CRLF>>      \* "Name:value", also legal

RECURSIVE Flatten(_)
Flatten(ss) == IF ss = <<>> THEN <<>> ELSE Head(ss) \o Flatten(Tail(ss))

\* method target version, header list, body token
Request(method, target, version, hdrs, body) ==
    <<Tk("method", method), SP, Tk("target", target), SP, Tk("version", version), CRLF>>
    \o Flatten(hdrs) \o <<Tk("blank", "\r\n")>> \o (IF body.k = "s" /\ body.s = "" THEN <<>> ELSE <<body>>)

NoBody == Tk("body", "")

-----------------------------------------------------------------------------
(* Seeds: valid requests covering every method, the target classes, the     *)
(* four versions, the headers the server interprets, and the three demo     *)
(* endpoints with their bodies.                                             *)
Methods  == {"GET", "HEAD", "POST", "PUT", "DELETE", "CONNECT", "OPTIONS", "TRACE", "PATCH"}
Versions == {"HTTP/0.9", "HTTP/1.0", "HTTP/1.1", "HTTP/2.0"}
Host == Hdr("Host", "localhost")

MultipartBody == Tk("body", "--b1\r\nContent-Disposition: form-data; name=\"f\"\r\n\r\nvalue\r\n--b1--\r\n")

Seeds == {
  [id |-> "get_file",    doc |-> Request("GET", "/a.txt", "HTTP/1.1", <<Host>>, NoBody)],
  [id |-> "get_style",   doc |-> Request("GET", "/style.css", "HTTP/1.1", <<Host>>, NoBody)],
  [id |-> "get_script",  doc |-> Request("GET", "/script.js", "HTTP/1.1", <<Host>>, NoBody)],
  [id |-> "get_favicon", doc |-> Request("GET", "/favicon.svg", "HTTP/1.1", <<Host>>, NoBody)],
  [id |-> "get_index_html", doc |-> Request("GET", "/index.html", "HTTP/1.1", <<Host>>, NoBody)],
  [id |-> "get_404_html", doc |-> Request("GET", "/404.html", "HTTP/1.1", <<Host>>, NoBody)],
  [id |-> "get_root",    doc |-> Request("GET", "/", "HTTP/1.1", <<Host>>, NoBody)],
  [id |-> "get_dir",     doc |-> Request("GET", "/docs/", "HTTP/1.1", <<Host>>, NoBody)],
  [id |-> "get_missing", doc |-> Request("GET", "/nx.html", "HTTP/1.1", <<Host>>, NoBody)],
  [id |-> "get_query",   doc |-> Request("GET", "/a.txt?x=1&y=%2F#frag", "HTTP/1.1", <<Host>>, NoBody)],
  [id |-> "get_range",   doc |-> Request("GET", "/a.txt", "HTTP/1.1", <<Host, Hdr("Range", "bytes=0-1")>>, NoBody)],
  [id |-> "get_ranges",  doc |-> Request("GET", "/a.txt", "HTTP/1.1", <<Host, Hdr("Range", "bytes=0-1, 3-4")>>, NoBody)],
  [id |-> "head_file",   doc |-> Request("HEAD", "/a.txt", "HTTP/1.1", <<Host>>, NoBody)],
  [id |-> "options_cors", doc |-> Request("OPTIONS", "/a.txt", "HTTP/1.1",
                              <<Host, Hdr("Origin", "https://o.example"), Hdr("Access-Control-Request-Method", "PUT"),
                                Hdr("Access-Control-Request-Headers", "Content-Type, X-K")>>, NoBody)],
  [id |-> "get_origin",  doc |-> Request("GET", "/a.txt", "HTTP/1.0", <<Host, Hdr("Origin", "https://o.example")>>, NoBody)],
  [id |-> "post_len",    doc |-> Request("POST", "/a.txt", "HTTP/1.1", <<Host, Hdr("Content-Length", "3")>>, Tk("body", "abc"))],
  [id |-> "form_get",    doc |-> Request("GET", "/form-get-method?k=v&k2=v2", "HTTP/1.1", <<Host>>, NoBody)],
  [id |-> "form_post",   doc |-> Request("POST", "/form-url-encoded-enctype-post-method", "HTTP/1.1",
                              <<Host, Hdr("Content-Type", "application/x-www-form-urlencoded"), Hdr("Content-Length", "7")>>,
                              Tk("body", "k=v&a=b"))],
  [id |-> "form_multi",  doc |-> Request("POST", "/form-multipart-enctype-post-method", "HTTP/1.1",
                              <<Host, Hdr("Content-Type", "multipart/form-data; boundary=b1")>>, MultipartBody)],
  [id |-> "upload_init", doc |-> Request("POST", "/file-upload/initiate?name=a.bin&lastModified=1&size=9", "HTTP/1.1", <<Host>>, NoBody)],
  [id |-> "upload_evil_name", doc |-> Request("POST", "/form-multipart-enctype-post-method", "HTTP/1.1",
                              <<Host, Hdr("Content-Type", "multipart/form-data; boundary=b1")>>,
                              Tk("body", "--b1\r\nContent-Disposition: form-data; name=\"f\"; filename=\"../outside/evil.txt\"\r\nContent-Type: text/plain\r\n\r\nowned\r\n--b1--\r\n"))],
  \* uploads with harmless names: a new file, a file that exists in the served directory, a name inside a sub-directory,
  \* two file parts with a binary one (a server that "keeps" file parts would create or alter these)
  [id |-> "upload_file_new", doc |-> Request("POST", "/form-multipart-enctype-post-method", "HTTP/1.1",
                              <<Host, Hdr("Content-Type", "multipart/form-data; boundary=b1")>>,
                              Tk("body", "--b1\r\nContent-Disposition: form-data; name=\"f\"; filename=\"upload.bin\"\r\nContent-Type: application/octet-stream\r\n\r\nuploaded bytes\r\n--b1--\r\n"))],
  [id |-> "upload_file_existing", doc |-> Request("POST", "/form-multipart-enctype-post-method", "HTTP/1.1",
                              <<Host, Hdr("Content-Type", "multipart/form-data; boundary=b1")>>,
                              Tk("body", "--b1\r\nContent-Disposition: form-data; name=\"f\"; filename=\"a.txt\"\r\nContent-Type: text/plain\r\n\r\nreplaced\r\n--b1--\r\n"))],
  [id |-> "upload_file_nested", doc |-> Request("POST", "/form-multipart-enctype-post-method", "HTTP/1.1",
                              <<Host, Hdr("Content-Type", "multipart/form-data; boundary=b1"), Hdr("Content-Length", "181")>>,
                              Tk("body", "--b1\r\nContent-Disposition: form-data; name=\"note\"\r\n\r\nhello\r\n--b1\r\nContent-Disposition: form-data; name=\"f\"; filename=\"docs/new.html\"\r\nContent-Type: text/html\r\n\r\n<p>new</p>\r\n--b1--\r\n"))],
  \* a client that answers the server's own advertisement (Accept-CH / Critical-CH): every client hint it asked for, plus what a
  \* browser sends anyway -- responses to such a request are responses too
  [id |-> "get_browser_like", doc |-> Request("GET", "/a.txt", "HTTP/1.1",
                              <<Host, Hdr("User-Agent", "Mozilla/5.0 (X11; Linux x86_64)"), Hdr("Accept", "text/html,*/*;q=0.8"), Hdr("Accept-Language", "en-US,en;q=0.5"),
                                Hdr("Accept-Encoding", "gzip, deflate, br"), Hdr("Connection", "keep-alive"), Hdr("Upgrade-Insecure-Requests", "1"),
                                Hdr("If-Modified-Since", "Sat, 01 Jan 2022 00:00:00 GMT"), Hdr("If-None-Match", "\"abc\""), Hdr("Cache-Control", "max-age=0"),
                                Hdr("Sec-CH-UA-Arch", "\"x86\""), Hdr("Sec-CH-UA-Bitness", "\"64\""), Hdr("Sec-CH-UA-Full-Version-List", "\"Chromium\";v=\"120.0.0.0\""),
                                Hdr("Sec-CH-UA-Model", "\"\""), Hdr("Sec-CH-UA-Platform-Version", "\"6.1.0\""), Hdr("Downlink", "10"), Hdr("ECT", "4g"), Hdr("RTT", "50"),
                                Hdr("Save-Data", "on"), Hdr("Device-Memory", "8"), Hdr("Sec-CH-Prefers-Reduced-Motion", "no-preference"),
                                Hdr("Sec-CH-Prefers-Color-Scheme", "dark"), Hdr("Sec-Fetch-Dest", "document"), Hdr("Sec-Fetch-Mode", "navigate"),
                                Hdr("DNT", "1"), Hdr("X-Forwarded-For", "10.0.0.1"), Hdr("Referer", "http://localhost/index.html")>>, NoBody)],
  \* the reflected headers in the compact spelling "Name:value" (every single mutation of a value then meets the other separator)
  [id |-> "options_cors_compact", doc |-> Request("OPTIONS", "/a.txt", "HTTP/1.1",
                              <<Host, HdrC("Origin", "https://o.example"), HdrC("Access-Control-Request-Method", "PUT"),
                                HdrC("Access-Control-Request-Headers", "Content-Type, X-K")>>, NoBody)],
  [id |-> "get_origin_compact", doc |-> Request("GET", "/a.txt", "HTTP/1.1", <<HdrC("Host", "localhost"), HdrC("Origin", "https://o.example"), HdrC("Range", "bytes=0-1")>>, NoBody)],
  \* two requests in one segment: the server reads a connection once and must answer exactly once
  [id |-> "pipelined_gets", doc |-> Request("GET", "/a.txt", "HTTP/1.1", <<Host>>,
                              Tk("body", "GET /index.html HTTP/1.1\r\nHost: localhost\r\n\r\nGET /nx HTTP/1.1\r\nHost: localhost\r\n\r\n"))],
  [id |-> "upload_init_evil", doc |-> Request("POST", "/file-upload/initiate?name=../outside/evil.bin&lastModified=1&size=9", "HTTP/1.1", <<Host>>, Tk("body", "012345678"))],
  [id |-> "put_new",     doc |-> Request("PUT", "/new.txt", "HTTP/1.1", <<Host, Hdr("Content-Length", "4")>>, Tk("body", "data"))],
  [id |-> "post_dir",    doc |-> Request("POST", "/docs/", "HTTP/1.1", <<Host, Hdr("Content-Type", "application/octet-stream")>>, Tk("body", "blob"))],
  [id |-> "delete_dir",  doc |-> Request("DELETE", "/docs/", "HTTP/1.1", <<Host>>, NoBody)],
  [id |-> "patch_file",  doc |-> Request("PATCH", "/a.txt", "HTTP/1.1", <<Host, Hdr("Content-Type", "text/plain")>>, Tk("body", "patched"))],
  [id |-> "put_file",    doc |-> Request("PUT", "/a.txt", "HTTP/2.0", <<Host, Hdr("Content-Type", "text/plain")>>, Tk("body", "new content"))],
  [id |-> "delete_file", doc |-> Request("DELETE", "/a.txt", "HTTP/1.1", <<Host>>, NoBody)],
  [id |-> "trace_star",  doc |-> Request("TRACE", "*", "HTTP/1.1", <<Host>>, NoBody)],
  [id |-> "connect_auth", doc |-> Request("CONNECT", "example.com:443", "HTTP/1.1", <<Host>>, NoBody)],
  [id |-> "patch_v09",   doc |-> Request("PATCH", "/a.txt", "HTTP/0.9", <<Host>>, Tk("body", "p"))]
}

-----------------------------------------------------------------------------
(* Request headers a client may send although no seed needs them: the       *)
(* registered request header fields with the values their own grammar       *)
(* enumerates (every Sec-Fetch-Dest destination, every credentials scheme   *)
(* with and without parameters, ...).  A server that starts to look at one  *)
(* of them must keep every property for every value.  Used unmutated.       *)
DictHeaders == {
  <<"Accept", "*/*">>, <<"Accept", "image/avif,image/webp,*/*;q=0.8">>, <<"Accept", "application/json">>, <<"Accept", "">>,
  <<"Accept-Charset", "utf-8, iso-8859-1;q=0.5">>, <<"Accept-Encoding", "gzip">>, <<"Accept-Encoding", "identity">>, <<"Accept-Encoding", "br;q=1.0, gzip;q=0.8, *;q=0.1">>,
  <<"Accept-Encoding", "">>, <<"Accept-Language", "*">>, <<"Accept-Language", "de-CH, de;q=0.9">>,
  <<"Authorization", "Basic dXNlcjpwYXNz">>, <<"Authorization", "Bearer abc.def.ghi">>, <<"Authorization", "Negotiate">>, <<"Authorization", "0123456789abcdef">>,
  <<"Authorization", "Digest username=\"u\", realm=\"r\", nonce=\"n\", uri=\"/a.txt\", response=\"0\"">>, <<"Authorization", "">>, <<"Authorization", " ">>, <<"Authorization", "Basic">>,
  <<"Proxy-Authorization", "Basic dXNlcjpwYXNz">>, <<"Proxy-Authorization", "x">>, <<"Proxy-Authorization", "">>,
  <<"Cache-Control", "no-cache">>, <<"Cache-Control", "no-store">>, <<"Cache-Control", "only-if-cached">>, <<"Cache-Control", "max-stale=5, min-fresh=1">>,
  <<"Connection", "close">>, <<"Connection", "keep-alive">>, <<"Connection", "Upgrade">>, <<"Connection", "keep-alive, Upgrade, TE">>,
  <<"Cookie", "sid=abc; theme=dark">>, <<"Cookie", "a">>, <<"Cookie", "=">>, <<"Cookie", "">>, <<"Content-Encoding", "gzip">>, <<"Content-Length", "0">>,
  <<"Content-Type", "text/plain; charset=utf-8">>, <<"Content-MD5", "Q2hlY2sgSW50ZWdyaXR5IQ==">>,
  <<"Date", "Tue, 15 Nov 1994 08:12:31 GMT">>, <<"Expect", "100-continue">>, <<"Expect", "x">>, <<"Forwarded", "for=192.0.2.60;proto=http;by=203.0.113.43">>,
  <<"From", "user@example.com">>, <<"If-Match", "*">>, <<"If-Match", "\"abc\"">>, <<"If-None-Match", "*">>, <<"If-None-Match", "W/\"abc\"">>,
  <<"If-Modified-Since", "Sat, 01 Jan 2022 00:00:00 GMT">>, <<"If-Modified-Since", "Fri, 01 Jan 2100 00:00:00 GMT">>, <<"If-Modified-Since", "0">>, <<"If-Modified-Since", "yesterday">>,
  <<"If-Unmodified-Since", "Sat, 01 Jan 2022 00:00:00 GMT">>, <<"If-Unmodified-Since", "Thu, 01 Jan 1970 00:00:00 GMT">>,
  <<"If-Range", "\"abc\"">>, <<"If-Range", "Sat, 01 Jan 2022 00:00:00 GMT">>, <<"Max-Forwards", "0">>, <<"Origin", "null">>, <<"Pragma", "no-cache">>,
  <<"Prefer", "return=minimal">>, <<"Priority", "u=1, i">>, <<"Purpose", "prefetch">>, <<"Sec-Purpose", "prefetch;prerender">>, <<"Range", "items=0-1">>,
  <<"Referer", "https://example.com/x?y#z">>, <<"Referer", "about:blank">>, <<"Referer", "">>,
  <<"Sec-Fetch-Dest", "audio">>, <<"Sec-Fetch-Dest", "audioworklet">>, <<"Sec-Fetch-Dest", "document">>, <<"Sec-Fetch-Dest", "embed">>, <<"Sec-Fetch-Dest", "empty">>,
  <<"Sec-Fetch-Dest", "fencedframe">>, <<"Sec-Fetch-Dest", "font">>, <<"Sec-Fetch-Dest", "frame">>, <<"Sec-Fetch-Dest", "iframe">>, <<"Sec-Fetch-Dest", "image">>,
  <<"Sec-Fetch-Dest", "manifest">>, <<"Sec-Fetch-Dest", "object">>, <<"Sec-Fetch-Dest", "paintworklet">>, <<"Sec-Fetch-Dest", "report">>, <<"Sec-Fetch-Dest", "script">>,
  <<"Sec-Fetch-Dest", "serviceworker">>, <<"Sec-Fetch-Dest", "sharedworker">>, <<"Sec-Fetch-Dest", "style">>, <<"Sec-Fetch-Dest", "track">>, <<"Sec-Fetch-Dest", "video">>,
  <<"Sec-Fetch-Dest", "webidentity">>, <<"Sec-Fetch-Dest", "worker">>, <<"Sec-Fetch-Dest", "xslt">>, <<"Sec-Fetch-Dest", "IMAGE">>, <<"Sec-Fetch-Dest", "">>,
  <<"Sec-Fetch-Mode", "cors">>, <<"Sec-Fetch-Mode", "navigate">>, <<"Sec-Fetch-Mode", "no-cors">>, <<"Sec-Fetch-Mode", "same-origin">>, <<"Sec-Fetch-Mode", "websocket">>,
  <<"Sec-Fetch-Site", "cross-site">>, <<"Sec-Fetch-Site", "same-origin">>, <<"Sec-Fetch-Site", "same-site">>, <<"Sec-Fetch-Site", "none">>, <<"Sec-Fetch-User", "?1">>,
  <<"Sec-GPC", "1">>, <<"Sec-WebSocket-Key", "dGhlIHNhbXBsZSBub25jZQ==">>, <<"Sec-WebSocket-Version", "13">>, <<"Service-Worker", "script">>,
  <<"Service-Worker-Navigation-Preload", "true">>, <<"TE", "trailers">>, <<"TE", "gzip">>, <<"Trailer", "Expires">>,
  <<"Transfer-Encoding", "chunked">>, <<"Transfer-Encoding", "gzip, chunked">>, <<"Transfer-Encoding", "identity">>,
  <<"Upgrade", "h2c">>, <<"Upgrade", "websocket">>, <<"HTTP2-Settings", "AAMAAABkAARAAAAAAAIAAAAA">>, <<"User-Agent", "curl/8.0.1">>, <<"User-Agent", "">>,
  <<"Via", "1.1 proxy.example">>, <<"Want-Digest", "sha-256">>, <<"Keep-Alive", "timeout=5, max=100">>, <<"Proxy-Connection", "keep-alive">>,
  <<"X-Forwarded-For", "10.0.0.1, 10.0.0.2">>, <<"X-Forwarded-Host", "evil.example">>, <<"X-Forwarded-Proto", "https">>, <<"X-Real-IP", "10.0.0.9">>,
  <<"X-Requested-With", "XMLHttpRequest">>, <<"X-HTTP-Method-Override", "DELETE">>, <<"X-Original-URL", "/docs/">>, <<"X-Rewrite-URL", "/docs/">>,
  <<"X-Request-ID", "7b3f">>, <<"X-Csrf-Token", "t">>, <<"Early-Data", "1">>, <<"Last-Event-ID", "5">>, <<"DNT", "0">>, <<"Save-Data", "off">>,
  <<"Accept-CH", "Sec-CH-UA-Arch">>, <<"Vary", "*">>, <<"Host", "other.example">> }
DictTargets == {"/a.txt", "/nx.html", "/"}
DictSeeds == {[id |-> "dict", doc |-> Request(m, t, "HTTP/1.1", <<Host, Hdr(h[1], h[2])>>, NoBody)] : h \in DictHeaders, t \in DictTargets, m \in {"GET", "HEAD"}}

(* Feedback: one header line derived by the harness from the server's own   *)
(* answer to the same request without it (rule "echo": a response header    *)
(* sent back; rule "if": the conditional header that belongs to a validator *)
(* of the answer, keeping the suffix the server gave the validator's name;  *)
(* the n-th candidate).  What a cache or a browser does with every answer.  *)
Fb(rule, n) == <<[role |-> "hfeedback", k |-> "fb", s |-> rule, n |-> n, b |-> <<>>, p |-> ""]>>
FeedbackSeeds ==
    {[id |-> "feedback", doc |-> Request(m, t, "HTTP/1.1", <<Host>> \o hs \o <<Fb(rule, n)>>, NoBody)] :
        m \in {"GET", "HEAD"}, t \in {"/a.txt", "/docs/", "/nx.html"}, hs \in {<<>>, <<Hdr("Range", "bytes=0-1, 3-4")>>},
        rule \in {"echo", "if"}, n \in 0..24}

-----------------------------------------------------------------------------
(* Replacement alphabets by role.  Each entry is a token; `verdict` says     *)
(* what the request-line grammar (C14) makes of the result when it replaces  *)
(* a token of a valid request: "reject" = the request can no longer be       *)
(* parsed, so the answer must carry an error status; "any" = not decided.    *)
NonUtf8 == <<255, 254>>
Alt(tok, verdict) == [tok |-> tok, verdict |-> verdict]

Alts(role) ==
    CASE role = "method"  -> { Alt(Tk(role, ""), "any"), Alt(Tk(role, "BREW"), "reject"), Alt(Tk(role, "get"), "any"),
                               Alt(Tk(role, "GET\t"), "reject"), Alt(TkRep(role, "A", 9000), "reject"),
                               Alt(TkB(role, NonUtf8), "reject"), Alt(Tk(role, "G E T"), "any") }
      [] role = "target"  -> { Alt(Tk(role, ""), "any"), Alt(Tk(role, "x"), "any"), Alt(Tk(role, "*"), "any"),
                               Alt(Tk(role, "//"), "any"), Alt(Tk(role, "?"), "any"), Alt(Tk(role, "#"), "any"),
                               Alt(Tk(role, "?a=b"), "any"), Alt(Tk(role, "/a b"), "any"), Alt(Tk(role, "http://h:x/"), "any"),
                               Alt(Tk(role, "/:@"), "any"), Alt(Tk(role, "//u:p@h:1/p"), "any"), Alt(Tk(role, "/%"), "any"),
                               Alt(Tk(role, "/%zz%"), "any"), Alt(Tk(role, "/a.txt?%=%&=&"), "any"),
                               Alt(Tk(role, "/docs"), "any"), Alt(Tk(role, "/docs/deep/../../a.txt"), "any"),
                               Alt(TkRep(role, "/a", 4500), "any"), Alt(TkB(role, <<47, 255, 47>>), "reject"),
                               Alt(TkB(role, <<47, 0, 47>>), "any"), Alt(Tk(role, "/form-get-method?"), "any"),
                               Alt(Tk(role, "/form-get-method?=&&=="), "any"),
                               \* queries that end inside an escape, end with '+', carry multi-byte text or repeat a name in several spellings
                               Alt(Tk(role, "/form-get-method?k=%"), "any"), Alt(Tk(role, "/form-get-method?k=%4"), "any"), Alt(Tk(role, "/form-get-method?k=v+"), "any"),
                               Alt(Tk(role, "/form-get-method?k=é😀&é=1"), "any"), Alt(Tk(role, "/form-get-method?a=1&a=2&A=3"), "any"),
                               Alt(Tk(role, "/nx-é😀.html"), "any"),
                               \* a dictionary of parameter names servers commonly act on, each carrying an (encoded) line break and a fake header:
                               \* whatever the server echoes from the query must not split the head (HttpMsg: HasHdr(r, "injected"))
                               Alt(Tk(role, "/a.txt?download=x%0D%0AInjected:%201&filename=y%0D%0AInjected:%201&name=z%0D%0AInjected:%201&file=a%0D%0AInjected:%201&attachment=b%0D%0AInjected:%201&redirect=c%0D%0AInjected:%201&url=d%0D%0AInjected:%201&next=e%0D%0AInjected:%201&return=f%0D%0AInjected:%201&callback=g%0D%0AInjected:%201&type=h%0D%0AInjected:%201&format=i%0D%0AInjected:%201&lang=j%0D%0AInjected:%201&charset=k%0D%0AInjected:%201&disposition=l%0D%0AInjected:%201"), "any"),
                               Alt(Tk(role, "/a.txt?download=x%0d%0aInjected:%201&filename=y%0d%0aInjected:%201&name=z%0d%0aInjected:%201&redirect=c%0d%0aInjected:%201&type=h%0d%0aInjected:%201"), "any"),
                               Alt(Tk(role, "/a.txt?download=x\rInjected: 1&filename=y\rInjected: 1&name=z\rInjected: 1&type=h\rInjected: 1"), "any"),
                               Alt(Tk(role, "/a.txt?download&filename&name&attachment&type=text/html&format=json&charset=utf-8"), "any"), Alt(TkPre(role, "/form-get-method?", "a=1&", 2000), "any"), Alt(TkPre(role, "/", "é", 400), "any"),
                               Alt(TkPre(role, "/a", "😀", 300), "any"), Alt(Tk(role, "/file-upload/initiate?name=../../x&lastModified=z&size=-1"), "any") }
      [] role = "version" -> { Alt(Tk(role, ""), "reject"), Alt(Tk(role, "HTTP/9.9"), "reject"), Alt(Tk(role, "http/1.1"), "any"),
                               Alt(Tk(role, "HTTP/1.1 x"), "reject"), Alt(Tk(role, "HTTP"), "reject") }
      [] role = "sp"      -> { Alt(Tk(role, ""), "reject"), Alt(Tk(role, "  "), "any"), Alt(Tk(role, "\t"), "reject") }
      [] role = "crlf"    -> { Alt(Tk(role, "\n"), "any"), Alt(Tk(role, "\r"), "any"), Alt(Tk(role, ""), "any"), Alt(Tk(role, "\r\n\r\n"), "any") }
      [] role = "hname"   -> { Alt(Tk(role, ""), "any"), Alt(Tk(role, "Content-Length"), "any"), Alt(Tk(role, "content-length"), "any"),
                               Alt(Tk(role, "Range"), "any"), Alt(Tk(role, "Origin"), "any"), Alt(Tk(role, "Content-Type"), "any"),
                               Alt(TkB(role, NonUtf8), "any"), Alt(TkRep(role, "N", 9000), "any") }
      [] role = "hsep"    -> { Alt(Tk(role, ":"), "any"), Alt(Tk(role, ""), "any"), Alt(Tk(role, " : "), "any") }
      [] role = "hvalue"  -> { Alt(Tk(role, ""), "any"), Alt(Tk(role, "a"), "any"), Alt(Tk(role, "-1"), "any"), Alt(Tk(role, "0"), "any"),
                               Alt(Tk(role, "99999999999999999999"), "any"), Alt(Tk(role, "18446744073709551615"), "any"),
                               Alt(Tk(role, "bytes=-"), "any"), Alt(Tk(role, "bytes=0-0,-1,1-"), "any"), Alt(Tk(role, "bytes=-99999999999999999999"), "any"),
                               Alt(Tk(role, "bytes=5-2"), "any"), Alt(TkPre(role, "bytes=", "0-0,", 2000), "any"), Alt(TkPre(role, "bytes=", "-1,", 3000), "any"),
                               \* long VALID multi-byte text where a number / token is expected (periods 2, 3, 4, 5, 7: whatever byte offset an
                               \* implementation cuts at, one of them has a character straddling it)
                               Alt(TkRep(role, "é", 400), "any"), Alt(TkRep(role, "aé", 300), "any"), Alt(TkRep(role, "😀", 200), "any"),
                               Alt(TkRep(role, "a😀", 200), "any"), Alt(TkRep(role, "abc😀", 150), "any"), Alt(Tk(role, "bytes"), "any"), Alt(Tk(role, "bytes=a-b"), "any"),
                               Alt(Tk(role, "multipart/form-data; boundary="), "any"), Alt(Tk(role, "multipart/form-data"), "any"),
                               Alt(Tk(role, "application/x-www-form-urlencoded"), "any"),
                               Alt(Tk(role, "x\r\nInjected: 1"), "any"), Alt(Tk(role, "x\nInjected: 1"), "any"), Alt(Tk(role, "x\rInjected: 1"), "any"),
                               \* the same without a blank after the colon (a parser with two separator paths may scrub only one of them)
                               Alt(Tk(role, "x\r\nInjected:1"), "any"), Alt(Tk(role, "x\nInjected:1"), "any"), Alt(Tk(role, "x\rInjected:1"), "any"),
                               Alt(Tk(role, "x\rSet-Cookie:sid=1"), "any"),
                               Alt(Tk(role, "a: b: c"), "any"), Alt(TkB(role, <<120, 0, 121>>), "any"), Alt(TkB(role, NonUtf8), "any"),
                               Alt(Tk(role, "HTTP/1.1 200 OK"), "any"), Alt(TkRep(role, "v", 9000), "any") }
      [] role = "blank"   -> { Alt(Tk(role, ""), "any"), Alt(Tk(role, "\n"), "any"), Alt(TkRep(role, "a\n", 5000), "any"),
                               Alt(TkRep(role, "a: b\r\n", 200), "any"), Alt(TkRep(role, "\r\n", 3000), "any") }
      [] role = "body"    -> { Alt(Tk(role, ""), "any"), Alt(TkB(role, NonUtf8), "any"), Alt(TkB(role, <<0, 1, 2, 255>>), "any"),
                               Alt(Tk(role, "k"), "any"), Alt(Tk(role, "=&=&%"), "any"), Alt(Tk(role, "k=%"), "any"), Alt(Tk(role, "k=v+"), "any"),
                               Alt(Tk(role, "k=é😀&é=1"), "any"), Alt(Tk(role, "a=1&a=2&A=3"), "any"), Alt(Tk(role, "k=v\r\n"), "any"),
                               \* structure-level repetition inside the request buffer: hundreds of tiny multipart parts / form fields
                               Alt(TkRep(role, "--b1\r\nA: b\r\n\r\nx\r\n", 700), "any"), Alt(TkRep(role, "--b1\r\na: \r\n\r\n\r\n", 800), "any"), Alt(TkRep(role, "--b1\r\n\r\n", 1300), "any"),
                               Alt(TkRep(role, "a=1&", 2400), "any"), Alt(TkRep(role, "&", 9000), "any"), Alt(TkRep(role, "%", 9000), "any"), Alt(Tk(role, "--b1\r\n\r\n--b1--"), "any"),
                               Alt(Tk(role, "--b1\r\nContent-Disposition: form-data\r\n\r\nv\r\n--b1--\r\n"), "any"),
                               Alt(Tk(role, "--b1\r\nContent-Disposition: form-data; name=\"f\"\r\n\r\n"), "any"),
                               Alt(TkPad(role, 9999), "any"), Alt(TkPad(role, 10000), "any"), Alt(TkPad(role, 10001), "any"),
                               Alt(TkPad(role, 20000), "any") }
      [] OTHER -> {}

\* one mutation applied to a document: [doc, verdict, what]
ReplaceAt(d, i, tok) == [d EXCEPT ![i] = tok]
DeleteAt(d, i)       == SubSeq(d, 1, i - 1) \o SubSeq(d, i + 1, Len(d))
DuplicateAt(d, i)    == SubSeq(d, 1, i) \o SubSeq(d, i, Len(d))
TruncateAt(d, i)     == SubSeq(d, 1, i - 1)

\* is position i inside the request line (tokens 1..6)?
InRequestLine(i) == i <= 6

MutantsAt(d) ==
    UNION {{[doc |-> ReplaceAt(d, i, a.tok), verdict |-> IF InRequestLine(i) THEN a.verdict ELSE "any", op |-> "replace", at |-> i]
              : a \in Alts(d[i].role)} : i \in 1..Len(d)}
    \cup {[doc |-> DeleteAt(d, i), verdict |-> IF i \in {1, 5} THEN "reject" ELSE "any", op |-> "delete", at |-> i] : i \in 1..Len(d)}
    \cup {[doc |-> DuplicateAt(d, i), verdict |-> "any", op |-> "duplicate", at |-> i] : i \in 1..Len(d)}
    \cup {[doc |-> TruncateAt(d, i), verdict |-> IF i <= 5 THEN "reject" ELSE "any", op |-> "truncate", at |-> i] : i \in 1..Len(d)}

=============================================================================
