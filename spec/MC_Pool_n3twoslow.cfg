SPECIFICATION SpecAllReleased
CONSTANTS
  N = 3
  T = 7
  Kind <- K_2long_rdv
  HoldLock = FALSE
  OneShot = FALSE
  Guarded = TRUE
  Spawned = 3
INVARIANT Safety
PROPERTIES EventuallyAllDone NoIdleStarvation
CHECK_DEADLOCK FALSE
