---------------------------- MODULE Gen_Totality ----------------------------
EXTENDS Totality, TLC, Json
CONSTANT NSeeds       \* seeds per entry point the harness holds (the harness clamps to what it has)
VARIABLE case
GInit == called = "none" /\ outcome = "none" /\ \E ep \in EntryPoints : case \in Mutations(ep, NSeeds)
GNext == UNCHANGED <<case, called, outcome>>
GSpec == GInit /\ [][GNext]_<<case, called, outcome>>
Emit == PrintT(<<"CASE", ToJson(case)>>)
=============================================================================
