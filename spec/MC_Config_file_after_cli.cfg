SPECIFICATION Spec
CONSTANTS
  Order = "file_after_cli"
INVARIANT C12
CHECK_DEADLOCK FALSE
