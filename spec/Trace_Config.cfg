SPECIFICATION TSpec
CONSTANTS
  Order = "pinned"
INVARIANT Done FoldIsEffective
POSTCONDITION AllConsumed
CHECK_DEADLOCK FALSE
