SPECIFICATION SpecAllReleased
CONSTANTS
  N = 2
  T = 6
  Kind <- K_2rdv_long_2rdv_inst
  HoldLock = FALSE
  OneShot = FALSE
  Guarded = TRUE
  Spawned = 2
INVARIANT Safety
PROPERTIES EventuallyAllDone NoIdleStarvation
CHECK_DEADLOCK FALSE
