--------------------------- MODULE Trace_Totality ---------------------------
(* Trace validation for C20: every recorded call must be a step Call(ep, outcome) of Totality. *)
EXTENDS Totality, Json, IOUtils, TLC
Rec == ndJsonDeserialize(IOEnv.TRACE)
VARIABLES l, nfail
tvars == <<called, outcome, l, nfail>>
TInit == called = "none" /\ outcome = "none" /\ l = 1 /\ nfail = 0
Ev == Rec[l]
TCall == /\ l <= Len(Rec)
         /\ IF ENABLED Call(Ev.ep, Ev.outcome)
            THEN Call(Ev.ep, Ev.outcome) /\ nfail' = nfail
            ELSE /\ PrintT(<<"FAIL", ToJson([i |-> l, props |-> {"C20." \o Ev.outcome}])>>)
                 /\ nfail' = nfail + 1 /\ UNCHANGED <<called, outcome>>
         /\ l' = l + 1
TSpec == TInit /\ [][TCall]_tvars
Done == (l = Len(Rec) + 1) => PrintT(<<"DONE", Len(Rec), nfail>>)
AllConsumed == TLCGet("stats").diameter = Len(Rec) + 1
=============================================================================
