------------------------------ MODULE Gen_Cors ------------------------------
(***************************************************************************)
(* Case generator for C11: every configuration of the bound crossed with   *)
(* every Origin value of a near-miss table built around the configured     *)
(* origins (TLC strings are opaque, so the prefixes, suffixes, substrings, *)
(* case variants and joined forms are written out), every method class and *)
(* with / without preflight request headers.                                *)
(***************************************************************************)
EXTENDS Naturals, Sequences, FiniteSets, TLC, Json

CONSTANT Full      \* TRUE: all 128 configurations; FALSE: a covering subset

VARIABLE case

A == "https://foo.example"
B == "https://bar.example"
C == "http://a.test:8080"
D == "https://x.y.z"

OriginLists == { <<>>, <<A>>, <<A, B>>, <<A, B, C, D>> }

\* Origin header values: "" stands for an EMPTY value; the absent header is has_origin = FALSE
NearMisses == { A, B, C, D,
    "https://foo.exampl", "https://foo.example.", "ttps://foo.example", "foo.example", "foo", "e", "https://",
    "HTTPS://FOO.EXAMPLE", "https://foo.example.evil.com", "https://evil.com/https://foo.example",
    "https://foo.example,https://bar.example", "example,https://bar", ",", "",
    "http://a.test:808", "http://a.test", "a.test:8080", "https://unrelated.org", "null", "https://x.y.z/",
    \* spellings a normalising comparison would wrongly equate with a configured origin
    "https://foo.example:443", "http://foo.example", "https://FOO.example", "https://foo.example//", "https://foo.example/path",
    "https://foo.example?x", "https://foo.example#f", "https://user@foo.example", "http://a.test:08080",
    "http://a.test:8080/", "https://foo.example\thttps://bar.example", "https://foo.example https://bar.example",
    "https://bar.example,https://foo.example", "*", "https://*.example",
    \* Origins related to OTHER request fields: the Host header of these requests is "localhost" (same-origin shortcuts)
    "http://localhost", "https://localhost", "http://localhost:80", "localhost" }

\* creds_as: how "credentials off" is expressed to the server -- the literal false, an empty value, or nothing at all
Configs ==
    { [all |-> al, origins |-> os, creds |-> cr, creds_as |-> ca, methods |-> ms, headers |-> hs, expose |-> "content-type", maxage |-> ma]
        : al \in BOOLEAN, os \in OriginLists, cr \in BOOLEAN, ca \in {"literal", "unset", "empty"},
          ms \in {"GET,POST", "PUT"}, hs \in {"content-type,x-custom-header", "X-Upper"}, ma \in {"86400", "5"} }
    \ { c \in [all : BOOLEAN, origins : OriginLists, creds : {TRUE}, creds_as : {"unset", "empty"}, methods : {"GET,POST", "PUT"},
                headers : {"content-type,x-custom-header", "X-Upper"}, expose : {"content-type"}, maxage : {"86400", "5"}] : TRUE }
Covering == { c \in Configs : \/ (c.methods = "GET,POST" /\ c.headers = "content-type,x-custom-header" /\ c.maxage = "86400"
                                    /\ (c.creds_as = "literal" \/ (~c.all /\ Len(c.origins) = 2)))
                              \/ (c.methods = "PUT" /\ c.headers = "X-Upper" /\ c.maxage = "5" /\ c.origins = <<A, B>>) }

Req(cfg, m, has, org, pf) == [cfg |-> cfg, method |-> m, has_origin |-> has, origin |-> org, preflight |-> pf]

Init == \/ \E cfg \in (IF Full THEN Configs ELSE Covering), m \in {"GET", "POST", "OPTIONS"}, org \in NearMisses, pf \in BOOLEAN :
               case = Req(cfg, m, TRUE, org, pf)
        \/ \E cfg \in (IF Full THEN Configs ELSE Covering), m \in {"GET", "OPTIONS"}, pf \in BOOLEAN :
               case = Req(cfg, m, FALSE, "", pf)
Next == UNCHANGED case
Spec == Init /\ [][Next]_case
Emit == PrintT(<<"CASE", ToJson(case)>>)
=============================================================================
