SPECIFICATION Spec
CONSTANT First <- FirstQuick
CONSTANT Skew = 0
INVARIANTS GroupOK TailOK
CHECK_DEADLOCK FALSE
