--------------------------- MODULE Codec_Percent ---------------------------
(***************************************************************************)
(* Form and query decoding (C17): a map of distinct non-empty names to      *)
(* non-empty values, encoded by the library's encoder, must come back       *)
(* exactly -- through query parsing, form-body parsing and the two echo     *)
(* endpoints of the server (leg).  Order is free: maps are compared as      *)
(* sets of pairs.                                                           *)
(***************************************************************************)
EXTENDS Naturals, Sequences, FiniteSets

PairSet(ps) == {ps[i] : i \in 1..Len(ps)}
DistinctKeys(ps) == \A i, j \in 1..Len(ps) : i # j => ps[i][1] # ps[j][1]
\* obs = [outcome, pairs]
MapViolations(leg, v, obs) ==
    IF ~DistinctKeys(v.pairs) THEN {}
    ELSE IF obs.outcome # "ok" THEN {"C17." \o leg \o ".failed"}
    ELSE IF PairSet(obs.pairs) = PairSet(v.pairs) THEN {} ELSE {"C17." \o leg \o ".fields_differ"}
=============================================================================
