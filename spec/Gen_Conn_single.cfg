SPECIFICATION Spec
CONSTANTS
  Mode = "single"
INVARIANT Emit
CHECK_DEADLOCK FALSE
