---------------------------- MODULE Trace_Static ----------------------------
(***************************************************************************)
(* Trace validation for the request -> response properties (C01, C02, C03, *)
(* C09, C10, and C05 on every response seen).  State: the mounted world     *)
(* and configuration, and the last GET response per entry point (C09 is a   *)
(* relation between the GET, HEAD and OPTIONS responses for one target).    *)
(* Events:                                                                  *)
(*   Mount(world, cfg)   the harness built this tree and chdir'ed into root *)
(*   Stat(segs, kind, len)   what the OS says root/segs is: validates the   *)
(*                       environment model Fs!Resolve (a mismatch is a TOOL *)
(*                       error, not a violation)                            *)
(*   Serve(q, r)         one request through a real entry point             *)
(* The constant Props selects which properties judge the events of a run.   *)
(* The spec is total: every event is consumed, violated clauses are printed.*)
(***************************************************************************)
EXTENDS Router, Cors, Json, IOUtils, TLC

CONSTANT Props        \* subset of {"C01","C02","C03","C05","C09","C10","ROUTER"} (ROUTER: conformance beyond the properties)

Rec == ndJsonDeserialize(IOEnv.TRACE)

VARIABLES l, world, cfg, lastGet, nfail
tvars == <<l, world, cfg, lastGet, nfail>>

NoWorld == [id |-> 0, root |-> 1, nodes |-> <<>>]
NoResp  == [status |-> 0]

TInit == l = 1 /\ world = NoWorld /\ cfg = [all |-> TRUE] /\ lastGet = [prod |-> NoResp, legacy |-> NoResp] /\ nfail = 0

Ev == Rec[l]

\* ---------------------------------------------------------------- C09 (relational)
TimestampHeaders == {"date-unix-epoch-nanos"}
HdrPairs(r) == {<<r.hs[i].nl, r.hs[i].v>> : i \in {j \in 1..Len(r.hs) : r.hs[j].nl \notin TimestampHeaders}}
C09Violations(q, g, r) ==
    IF ~(PlainPath(q) /\ g.status \in 200..299) THEN {}
    ELSE IF q.method = "HEAD" THEN
        (IF r.status = g.status THEN {} ELSE {"C09.head_status_differs_from_get"})
        \cup (IF r.status = g.status /\ HdrPairs(r) # HdrPairs(g) THEN {"C09.head_headers_differ_from_get"} ELSE {})
        \cup (IF r.status = g.status /\ HasHdr(g, "content-length") /\
                 ~(ContentLengthOk(r) /\ ContentLength(r) = g.body_len) THEN {"C09.head_content_length"} ELSE {})
        \cup (IF r.body_len # 0 THEN {"C09.head_has_body"} ELSE {})
    ELSE IF q.method = "OPTIONS" THEN
        (IF r.status \in 200..299 THEN {} ELSE {"C09.options_not_success"})
        \cup (IF r.body_len # 0 THEN {"C09.options_has_body"} ELSE {})
        \cup (IF r.status \in 200..299 /\ q.has_origin /\ CorsViolations(cfg, q, r) # {} THEN {"C09.options_without_preflight_grants"} ELSE {})
    ELSE {}

\* ---------------------------------------------------------------- judgement of one Serve event
Violations(q, r) ==
    (IF "C01" \in Props THEN C01Violations(world, q, r) ELSE {})
    \cup (IF "C02" \in Props THEN C02Violations(world, q, r) ELSE {})
    \cup (IF "C03" \in Props THEN C03Violations(world, q, r) ELSE {})
    \cup (IF "C09" \in Props /\ q.method \in {"HEAD", "OPTIONS"} THEN C09Violations(q, lastGet[q.entry], r) ELSE {})
    \cup (IF "ROUTER" \in Props THEN RouterViolations(world, q, r) ELSE {})
    \cup (IF "C10" \in Props /\ r.raw_len > 0 THEN HardeningViolations(r) ELSE {})
    \cup (IF "C05" \in Props /\ r.raw_len > 0 THEN WellFormedViolations(r, q.method) ELSE {})
    \cup (IF "C04" \in Props /\ r.outcome = "panic" THEN {"C04.panic"} ELSE {})
    \cup (IF "C04" \in Props /\ r.outcome # "panic" /\ r.raw_len = 0 THEN {"C04.no_response"} ELSE {})

Report(bad, extra) == PrintT(<<"FAIL", ToJson([i |-> l, props |-> bad] @@ extra)>>)

TMount == /\ l <= Len(Rec) /\ Ev.ev = "Mount"
          /\ world' = Ev.world /\ cfg' = Ev.cfg
          /\ lastGet' = [prod |-> NoResp, legacy |-> NoResp]
          /\ (IF WorldOK(Ev.world) THEN TRUE ELSE Report({"TOOL.world_malformed"}, <<>>))
          /\ l' = l + 1 /\ UNCHANGED nfail

\* the environment model: Fs!Resolve must agree with the operating system
StatAgrees == LET n == ResolveFrom(world, world.root, Ev.segs) IN
              CASE Ev.kind = "file" -> IsFile(world, n) /\ FileLen(world, n) = Ev.len
                [] Ev.kind = "dir"  -> n # NONE /\ IsDir(world, n)
                [] OTHER            -> n = NONE
TStat == /\ l <= Len(Rec) /\ Ev.ev = "Stat"
         /\ (IF StatAgrees THEN TRUE ELSE Report({"TOOL.fs_model_disagrees_with_os"}, [segs |-> Ev.segs, kind |-> Ev.kind]))
         /\ l' = l + 1 /\ UNCHANGED <<world, cfg, lastGet, nfail>>

TServe == /\ l <= Len(Rec) /\ Ev.ev = "Serve"
          /\ LET bad == Violations(Ev.q, Ev.r) IN
               /\ (IF bad = {} THEN TRUE
                   ELSE Report(bad, IF "C03" \in Props THEN [detail |-> C03Detail(world, Ev.q, Ev.r)] ELSE <<>>))
               /\ nfail' = nfail + (IF bad = {} THEN 0 ELSE 1)
          /\ lastGet' = IF Ev.q.method = "GET" THEN [lastGet EXCEPT ![Ev.q.entry] = Ev.r] ELSE lastGet
          /\ l' = l + 1 /\ UNCHANGED <<world, cfg>>

TNext == TMount \/ TStat \/ TServe
TSpec == TInit /\ [][TNext]_tvars

Done == (l = Len(Rec) + 1) => PrintT(<<"DONE", Len(Rec), nfail>>)
AllConsumed == TLCGet("stats").diameter = Len(Rec) + 1
=============================================================================
