----------------------------- MODULE MC_Config -----------------------------
(* every setting x every subset of sources with pairwise distinct values, and every pair of settings x pairs of
   subsets (independence), folded by the four start-up steps: the store must equal Effective *)
EXTENDS Config, TLC
Srcs == {"env", "file", "cli"}
Val(src, s) == src \o ":" \o s
Partial(S, ss) == [s \in ss |-> Val(S, s)]
Init == \E s1 \in Setting, s2 \in Setting : \E E \in SUBSET {s1, s2}, F \in SUBSET {s1, s2}, C \in SUBSET {s1, s2} :
           StartWith(Partial("env", E), Partial("file", F), Partial("cli", C))
Spec == Init /\ [][Next]_cvars
=============================================================================
