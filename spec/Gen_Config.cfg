SPECIFICATION GSpec
CONSTANTS
  Depth = 2
INVARIANT Emit
CHECK_DEADLOCK FALSE
