---------------------------- MODULE Trace_Config ----------------------------
(***************************************************************************)
(* Trace validation for C12: one Launch event per start of the real        *)
(* binary: what each source supplied (given.env / given.file / given.cli,   *)
(* concrete values) and what the probes observed the running server to use. *)
(* The run goes through the four start-up steps of Config; the observation  *)
(* must equal Effective for every setting the probes could observe          *)
(* ("n/a": not observable in this configuration, e.g. the CORS lists while  *)
(* allow-all is on).                                                        *)
(***************************************************************************)
EXTENDS Config, Json, IOUtils, TLC

Rec == ndJsonDeserialize(IOEnv.TRACE)
VARIABLES l, nfail
tvars == <<cvars, l, nfail>>

Ev == Rec[l]
\* JSON objects arrive as records, an empty object as the empty sequence: both are functions
AsFn(x) == x

\* the echo of POST /file-upload/initiate reports the buffer size minus 4000 (documented offset) when it exceeds 4000
AllocEcho(v) == CASE v = "10000" -> "6000" [] v = "11000" -> "7000" [] v = "12000" -> "8000" [] v = "13000" -> "9000" [] OTHER -> "?"

Matches(s, obs, eff) ==
    CASE s = "alloc" -> obs = AllocEcho(eff)
      [] s = "creds" -> (obs = "true") <=> (eff = "true")
      [] s = "ip"    -> IF eff = "localhost" THEN obs \in {"127.0.0.1", "::1"} ELSE obs = eff      \* a host name: the loopback it resolves to
      [] OTHER -> obs = eff

TInit == l = 1 /\ nfail = 0 /\ env = <<>> /\ file = <<>> /\ cli = <<>> /\ store = <<>> /\ step = 0

\* Launch = the whole start-up in one event: the fold is replayed on the given sources and the store compared
Fold(e, f, c) == Over(Over(Over(Default, e), f), c)
TLaunch ==
    /\ l <= Len(Rec) /\ Ev.ev = "Launch"
    /\ env' = Ev.given.env /\ file' = Ev.given.file /\ cli' = Ev.given.cli
    /\ store' = Fold(Ev.given.env, Ev.given.file, Ev.given.cli) /\ step' = 4
    /\ LET bad == {"C12." \o s : s \in {x \in Setting : Ev.obs[x] # "n/a"
                                          /\ ~Matches(x, Ev.obs[x], Effective(Ev.given.env, Ev.given.file, Ev.given.cli, x))}}
                  \* every generated configuration is valid: a server that does not come up with it (while the same
                  \* settings given on the command line alone do start, which the checker verifies) is not using them
                  \cup (IF Ev.started THEN {} ELSE {"C12.server_did_not_start"})
       IN /\ (IF bad = {} THEN TRUE ELSE PrintT(<<"FAIL", ToJson([i |-> l, props |-> bad])>>))
          /\ nfail' = nfail + (IF bad = {} THEN 0 ELSE 1)
    /\ l' = l + 1

TNext == TLaunch
TSpec == TInit /\ [][TNext]_tvars
\* the design invariant evaluated on every replayed start-up
FoldIsEffective == C12
Done == (l = Len(Rec) + 1) => PrintT(<<"DONE", Len(Rec), nfail>>)
AllConsumed == TLCGet("stats").diameter = Len(Rec) + 1
=============================================================================
