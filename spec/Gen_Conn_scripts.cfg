SPECIFICATION Spec
CONSTANTS
  Mode = "scripts"
INVARIANT Emit
CHECK_DEADLOCK FALSE
