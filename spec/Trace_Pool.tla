----------------------------- MODULE Trace_Pool -----------------------------
(***************************************************************************)
(* Trace validation for C07 (code -> specification).  One trace file holds *)
(* many runs of the real ThreadPool for one configuration (N, Kind), each  *)
(* introduced by a Reset event.  Events come from the cfg(rws_verif) hook   *)
(* points of the worker loop and from the submitted closures:               *)
(*   Submit(t)   BeforeSend in ThreadPool::execute                          *)
(*   Lock(w)     LockAcquired                                               *)
(*   Recv(w)     Received (the guard is already dropped when this is logged)*)
(*   Start(w,t)  first statement of the closure of task t, on worker w      *)
(*   Finish(w)   JobDone                                                    *)
(*   Stall(a,w)  replay mode: the code did not take the spec-legal step     *)
(*   Quiesce     end of a run: done flag and the closures' own counters     *)
(* The trace spec is total: a run whose next event no Pool action explains  *)
(* is reported (FAIL) and skipped up to the next Reset.                     *)
(***************************************************************************)
EXTENDS Pool, Json, IOUtils, TLC

Rec == ndJsonDeserialize(IOEnv.TRACE)

VARIABLES l,        \* index of the next event
          early,    \* workers whose Recv was applied ahead of its (late) Received event
          skip,     \* the current run was rejected; consume up to the next Reset
          nfail

tvars == <<vars, l, early, skip, nfail>>

TInit == Init /\ l = 1 /\ early = {} /\ skip = FALSE /\ nfail = 0

Ev == Rec[l]
IsEv(e) == l <= Len(Rec) /\ ~skip /\ Ev.ev = e
Adv == l' = l + 1 /\ UNCHANGED <<skip, nfail>>

TReset == /\ l <= Len(Rec) /\ Ev.ev = "Reset"
          /\ queue' = <<>> /\ next' = 1 /\ lock' = NONE
          /\ pc' = [w \in Worker |-> IF w <= Spawned THEN "idle" ELSE "exited"]
          /\ cur' = [w \in Worker |-> NONE]
          /\ runs' = [t \in Task |-> 0] /\ fin' = [t \in Task |-> FALSE]
          /\ arrived' = 0 /\ arr' = [t \in Task |-> 0]
          /\ early' = {} /\ skip' = FALSE /\ l' = l + 1 /\ UNCHANGED nfail

TSubmit == IsEv("Submit") /\ Ev.t = next /\ Submit /\ Adv /\ UNCHANGED early

\* The receiver guard is dropped before the Received hook can log: another worker may log its Lock first.
\* Then the only explanation is that the previous holder has already received (FIFO, single submitter).
TLock == /\ IsEv("Lock") /\ Ev.w \in Worker
         /\ \/ Lock(Ev.w) /\ UNCHANGED early
            \/ /\ lock # NONE /\ lock # Ev.w /\ pc[lock] = "locked"
               /\ early' = early \cup {lock}
               /\ RecvThenLock(lock, Ev.w)
         /\ Adv

TRecv == /\ IsEv("Recv") /\ Ev.w \in Worker
         /\ IF Ev.w \in early
            THEN early' = early \ {Ev.w} /\ UNCHANGED vars
            ELSE Recv(Ev.w) /\ UNCHANGED early
         /\ Adv

TStart == /\ IsEv("Start") /\ Ev.w \in Worker /\ Ev.w \notin early
          /\ cur[Ev.w] = Ev.t              \* the task the FIFO queue handed to this worker
          /\ Start(Ev.w) /\ Adv /\ UNCHANGED early

TFinish == /\ IsEv("Finish") /\ Ev.w \in Worker
           /\ Finish(Ev.w) /\ Adv /\ UNCHANGED early

\* end of a run: everything submitted ran exactly once and finished, as counted by the closures themselves
TQuiesce == /\ IsEv("Quiesce")
            /\ Ev.done /\ AllSubmitted /\ AllDone /\ ExactlyOnce
            /\ Ev.nstart = T /\ Ev.nfin = T
            /\ Adv /\ UNCHANGED <<vars, early>>

Explained == TSubmit \/ TLock \/ TRecv \/ TStart \/ TFinish \/ TQuiesce

\* why an event is rejected (for the report)
ExpectedAction(a, w) ==
    CASE a = "Lock"   -> ENABLED Lock(w)
      [] a = "Recv"   -> ENABLED Recv(w)
      [] a = "Start"  -> ENABLED Start(w)
      [] a = "Finish" -> ENABLED Finish(w)
      [] OTHER        -> FALSE
Reason ==
    IF Ev.ev = "Stall" THEN
        IF ExpectedAction(Ev.a, Ev.w) THEN "refusal: the code did not take a step the specification allows"
        ELSE "drift: harness expected a step the specification does not enable"
    ELSE IF Ev.ev = "Quiesce" THEN "quiescence: tasks lost, duplicated or left waiting (done/counters/AllDone)"
    ELSE "unexplained event: no Pool action matches"

TReject == /\ l <= Len(Rec) /\ ~skip /\ Ev.ev # "Reset"
           /\ ~ENABLED Explained
           /\ PrintT(<<"FAIL", ToJson([i |-> l, ev |-> Ev, reason |-> Reason,
                                      state |-> [queue |-> queue, lock |-> lock, pc |-> pc, cur |-> cur, runs |-> runs, fin |-> fin]])>>)
           /\ skip' = TRUE /\ nfail' = nfail + 1 /\ l' = l + 1 /\ UNCHANGED <<vars, early>>

TSkip == /\ l <= Len(Rec) /\ skip /\ Ev.ev # "Reset"
         /\ l' = l + 1 /\ UNCHANGED <<vars, early, skip, nfail>>

TNext == TReset \/ Explained \/ TReject \/ TSkip
TSpec == TInit /\ [][TNext]_tvars

\* every invariant of the design is evaluated at every step of every accepted run
TraceSafety == skip \/ Safety
Done == (l = Len(Rec) + 1) => PrintT(<<"DONE", Len(Rec), nfail>>)
AllConsumed == TLCGet("stats").diameter = Len(Rec) + 1
=============================================================================
