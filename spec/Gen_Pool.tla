------------------------------ MODULE Gen_Pool ------------------------------
(***************************************************************************)
(* Behaviour generator for schedule replay (C07, specification -> code).   *)
(* Pool plus a history variable recording the action taken at each step;   *)
(* run with `tlc -simulate`: every simulated behaviour that reaches AllDone *)
(* is printed as one replay case.  The real ThreadPool is then driven       *)
(* through exactly this sequence of critical sections by the harness.       *)
(***************************************************************************)
EXTENDS Pool, TLC, Json

VARIABLE hist

Step(a, w, t) == hist' = Append(hist, [a |-> a, w |-> w, t |-> t])

GInit == Init /\ hist = <<>>
GNext == /\ ~AllDone
         /\ \/ Submit /\ Step("Submit", 0, next)
            \/ \E w \in Worker :
                 \/ Lock(w)   /\ Step("Lock", w, 0)
                 \/ Recv(w)   /\ Step("Recv", w, Head(queue))
                 \/ Start(w)  /\ Step("Start", w, cur[w])
                 \/ Finish(w) /\ Step("Finish", w, cur[w])
GSpec == GInit /\ [][GNext]_<<vars, hist>>

EmitBehaviour == AllDone => PrintT(<<"CASE", ToJson([n |-> N, kind |-> Kind, steps |-> hist])>>)
=============================================================================
