------------------------------ MODULE PoolApa ------------------------------
(* Pool for Apalache: the safety part of C07 as an inductive invariant, for the LARGEST pool and task count of the     *)
(* property's quantifier (N = 8 workers, T = 32 tasks of any kinds) -- TLC explores N <= 3 exhaustively, this lifts    *)
(* exactly-once / no-loss / no-duplicate / mutual exclusion / FIFO to every reachable state of the big instance.       *)
EXTENDS Integers, Sequences, FiniteSets, Apalache

CONSTANTS
    \* @type: Int;
    N,
    \* @type: Int;
    T,
    \* @type: Int -> Str;
    Kind,
    \* @type: Bool;
    HoldLock,
    \* @type: Bool;
    OneShot,
    \* @type: Int;
    Spawned,
    \* @type: Bool;
    Guarded

VARIABLES
    \* @type: Seq(Int);
    queue,
    \* @type: Int;
    next,
    \* @type: Int;
    lock,
    \* @type: Int -> Str;
    pc,
    \* @type: Int -> Int;
    cur,
    \* @type: Int -> Int;
    runs,
    \* @type: Int -> Bool;
    fin,
    \* @type: Int;
    arrived,
    \* @type: Int -> Int;
    arr

INSTANCE Pool

Kinds == {"instant", "rdv", "long", "panic"}
ConstInit == /\ N = 8 /\ T = 32 /\ Spawned = 8 /\ HoldLock = FALSE /\ OneShot = FALSE /\ Guarded = TRUE
             /\ Kind \in [1..32 -> Kinds]
\* the hold-the-lock-across-the-job mutant: MutexOK's strengthening must fail
ConstInitHold == /\ N = 8 /\ T = 32 /\ Spawned = 8 /\ HoldLock = TRUE /\ OneShot = FALSE /\ Guarded = TRUE
                 /\ Kind \in [1..32 -> Kinds]

CInit == Init
NextA == Next \/ UNCHANGED vars

TypeA == /\ next \in 1..(T + 1)
         /\ lock \in 0..N
         /\ pc \in [1..N -> {"idle", "locked", "got", "running", "exited"}]
         /\ cur \in [1..N -> 0..T]
         /\ runs \in [1..T -> 0..1]
         /\ fin \in [1..T -> BOOLEAN]
         /\ arrived \in Nat
         /\ arr \in [1..T -> Nat]
         /\ Len(queue) <= T
         /\ \A i \in DOMAIN queue : queue[i] \in 1..T

\* where every task is: not yet submitted / in the queue / held by exactly one worker / finished -- and what runs, fin say there
Where == /\ \A i \in DOMAIN queue : queue[i] < next /\ runs[queue[i]] = 0 /\ ~fin[queue[i]]
         /\ \A i, j \in DOMAIN queue : i < j => queue[i] < queue[j]
         /\ \A t \in 1..T : t >= next => (runs[t] = 0 /\ ~fin[t] /\ \A w \in 1..N : cur[w] # t)
         /\ \A w \in 1..N : (pc[w] \in {"idle", "locked", "exited"} <=> cur[w] = 0)
         /\ \A w \in 1..N : pc[w] = "got" => (runs[cur[w]] = 0 /\ ~fin[cur[w]] /\ cur[w] < next)
         /\ \A w \in 1..N : pc[w] = "running" => (runs[cur[w]] = 1 /\ ~fin[cur[w]] /\ cur[w] < next)
         /\ \A w \in 1..N : cur[w] # 0 => \A i \in DOMAIN queue : queue[i] # cur[w]
         /\ \A v, w \in 1..N : (v # w /\ cur[v] # 0) => cur[v] # cur[w]
         /\ \A t \in 1..T : fin[t] => (runs[t] = 1 /\ \A w \in 1..N : cur[w] # t)
         /\ \A t \in 1..T : (t < next /\ ~fin[t]) => ((\E i \in DOMAIN queue : queue[i] = t) \/ (\E w \in 1..N : cur[w] = t))
         /\ \A t \in 1..T : runs[t] = 1 => (fin[t] \/ \E w \in 1..N : cur[w] = t /\ pc[w] = "running")
LockA == /\ (lock # 0 => pc[lock] = "locked")
         /\ \A w \in 1..N : pc[w] = "locked" => lock = w

IndInv == TypeA /\ Where /\ LockA
\* what C07 states, implied by IndInv in every state
C07Safety == ExactlyOnce /\ NoLoss /\ NoDuplicate /\ MutexOK /\ Fifo
IndInit == queue = Gen(32) /\ IndInv
=============================================================================
