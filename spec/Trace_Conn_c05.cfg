SPECIFICATION TSpec
CONSTANTS
  Props = {"C05"}
  ImplSingleWrite = FALSE
INVARIANT Done
POSTCONDITION AllConsumed
CHECK_DEADLOCK FALSE
