SPECIFICATION Spec
CONSTANTS
  N = 3
  T = 6
  Kind <- K_3rdv_inst_long_inst
  HoldLock = FALSE
  OneShot = FALSE
  Guarded = TRUE
  Spawned = 3
INVARIANT Safety
PROPERTIES EventuallyShortDone
CHECK_DEADLOCK FALSE
