SPECIFICATION Spec
CONSTANT First <- FirstAll
CONSTANT Skew = 0
INVARIANTS GroupOK TailOK
CHECK_DEADLOCK FALSE
