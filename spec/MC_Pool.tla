------------------------------ MODULE MC_Pool ------------------------------
(* Model-checking instances of Pool: task mixes are chosen per configuration. *)
EXTENDS Pool, TLC

\* task mixes (Kind) for the configurations below
K_3rdv_inst_long_inst == <<"rdv", "rdv", "rdv", "instant", "long", "instant">>      \* N = 3, T = 6
K_2rdv_long_2rdv_inst == <<"rdv", "long", "rdv", "rdv", "instant", "rdv">>          \* N = 2, T = 6
K_N1                  == <<"instant", "long", "rdv", "instant">>                    \* N = 1, T = 4 (rdv of 1)
K_2long_rdv           == <<"long", "long", "rdv", "rdv", "rdv", "instant", "instant">>  \* N = 3, T = 7: two slow tasks, one worker left
K_N2slow              == <<"instant", "long", "instant", "instant", "instant">>     \* N = 2, T = 5: one slow task, the rest still runs
K_N3slow2             == <<"long", "instant", "long", "instant", "instant", "instant">> \* N = 3, T = 6: two slow tasks, one worker left
K_hist                == <<"panic", "instant", "panic", "panic", "rdv", "rdv">>            \* N = 2, T = 6: failing jobs, then a probe of N
K_empty               == <<>>                                                       \* T = 0

\* refutation targets: used as INVARIANT in *_reach.cfg, TLC must report them violated (reachability witnesses)
AllWorkersBusyUnreachable == NotAllRunning
=============================================================================
