SPECIFICATION Spec
CONSTANTS
  Impl = TRUE
  MaxSegs = 3
INVARIANT Contained NeverADirectory ClimbIsNone
CHECK_DEADLOCK FALSE
