SPECIFICATION TSpec
CONSTANTS
  Props = {"C03"}
INVARIANT Done
POSTCONDITION AllConsumed
CHECK_DEADLOCK FALSE
