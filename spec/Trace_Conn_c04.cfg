SPECIFICATION TSpec
CONSTANTS
  Props = {"C04"}
  ImplSingleWrite = FALSE
INVARIANT Done
POSTCONDITION AllConsumed
CHECK_DEADLOCK FALSE
