------------------------------ MODULE MC_Range ------------------------------
(***************************************************************************)
(* The range algebra of Static (C03) checked on its own: for every file    *)
(* length L and every spec over the offset alphabet, a spec that lies       *)
(* inside the file yields a slice inside the file with the right length; a  *)
(* suffix equal to L is the whole file; first > last is never inside; and   *)
(* the arithmetic never needs a negative intermediate value.  The           *)
(* implementation-shaped labelling (end = L for open-ended and suffix       *)
(* specs, as src/range computes it) is shown to differ from RFC 9110.       *)
(***************************************************************************)
EXTENDS Static, TLC

CONSTANT MaxL
VARIABLES len, spec
vars == <<len, spec>>

Off(L) == {[k |-> "n", v |-> v] : v \in 0..(L + 1)} \cup {[k |-> "big", v |-> 1], [k |-> "junk", v |-> 0]}
Specs(L) == {[t |-> "fl", a |-> a, b |-> b] : a \in Off(L), b \in Off(L)}
            \cup {[t |-> tt, a |-> a, b |-> [k |-> "junk", v |-> 0]] : tt \in {"f", "s"}, a \in Off(L)}
            \cup {[t |-> "junk", a |-> [k |-> "junk", v |-> 0], b |-> [k |-> "junk", v |-> 0]]}

Init == len \in 0..MaxL /\ spec \in Specs(MaxL)
Next == UNCHANGED vars
Spec == Init /\ [][Next]_vars

SliceInside == InFile(len, spec) =>
                  LET sl == Slice(len, spec) IN sl.lo <= sl.hi /\ sl.hi < len /\ sl.hi - sl.lo + 1 <= len
NoNegative  == (spec.t = "s" /\ InFile(len, spec)) => len >= spec.a.v
WholeSuffix == (spec.t = "s" /\ IsNum(spec.a) /\ spec.a.v = len /\ len >= 1) => Slice(len, spec) = [lo |-> 0, hi |-> len - 1]
EmptyFile   == len = 0 => ~InFile(len, spec)
Backwards   == (spec.t = "fl" /\ IsNum(spec.a) /\ IsNum(spec.b) /\ spec.a.v > spec.b.v) => ~InFile(len, spec)
=============================================================================
