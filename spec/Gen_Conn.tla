------------------------------ MODULE Gen_Conn ------------------------------
(***************************************************************************)
(* Case generator for the connection-level properties (C04, C05, C10):     *)
(* request documents from Mutation (seeds, every single mutation, pairs of  *)
(* mutations on selected seeds) crossed with application handlers and with  *)
(* transport scripts (how many bytes each write call accepts, faults).      *)
(***************************************************************************)
EXTENDS Mutation, TLC, Json

CONSTANTS Mode      \* "single" | "pairs" | "scripts"

VARIABLE case

Case(seed, m, app, script) ==
    [seed |-> seed.id, doc |-> m.doc, verdict |-> m.verdict, muts |-> m.muts, app |-> app, script |-> script]

Unmutated(seed) == [doc |-> seed.doc, verdict |-> "valid", muts |-> <<>>]
Single(seed) == {[doc |-> x.doc, verdict |-> x.verdict, muts |-> <<[op |-> x.op, at |-> x.at]>>] : x \in MutantsAt(seed.doc)}
\* second mutation: replacements only, on the result of any first mutation
Pair(seed) ==
    UNION {{[doc |-> y.doc,
             verdict |-> IF x.verdict = "reject" /\ y.at > 6 THEN "reject" ELSE "any",
             muts |-> x.muts \o <<[op |-> y.op, at |-> y.at]>>]
            : y \in {z \in MutantsAt(x.doc) : z.op = "replace"}}
           : x \in Single(seed)}

Unlimited == [kind |-> "unlimited", chunk |-> 0, at |-> 0]
\* transport scripts: constant chunk size; one short first write of `at` bytes then unlimited;
\* a first write that accepts nothing; write error at the first call; after `at` accepted bytes; flush error; read error
Scripts ==
    {[kind |-> "chunk", chunk |-> c, at |-> 0] : c \in {1, 2, 3, 7, 16, 100, 1000, 8192}}
    \cup {[kind |-> "short_first", chunk |-> 0, at |-> a] : a \in (1..40) \cup {100, 300, 600, 900, 1200}}
    \cup {[kind |-> "zero_first", chunk |-> 0, at |-> 0],
          [kind |-> "write_error", chunk |-> 0, at |-> 0], [kind |-> "write_error", chunk |-> 0, at |-> 10],
          [kind |-> "flush_error", chunk |-> 0, at |-> 0], [kind |-> "read_error", chunk |-> 0, at |-> 0]}

ScriptSeeds == {s \in Seeds : s.id \in {"get_file", "get_root", "get_missing", "get_ranges", "head_file", "options_cors", "form_post", "put_file"}}
PairSeeds   == {s \in Seeds : s.id \in {"get_range", "form_post", "options_cors"}}
Apps == {"builtin", "err", "multi"}

Init ==
    CASE Mode = "single" ->
            \/ \E s \in Seeds, a \in Apps : case = Case(s, Unmutated(s), a, Unlimited)
            \/ \E s \in Seeds : \E m \in Single(s) : case = Case(s, m, "builtin", Unlimited)
            \/ \E s \in DictSeeds \cup FeedbackSeeds : case = Case(s, Unmutated(s), "builtin", Unlimited)
      [] Mode = "pairs" ->
            \E s \in PairSeeds : \E m \in Pair(s) : case = Case(s, m, "builtin", Unlimited)
      [] Mode = "scripts" ->
            \/ \E s \in ScriptSeeds, sc \in Scripts, a \in {"builtin", "err"} : case = Case(s, Unmutated(s), a, sc)
            \/ \E s \in {x \in Seeds : x.id = "get_file"} : \E m \in {z \in Single(s) : z.verdict = "reject"} :
                   \E sc \in {y \in Scripts : y.kind # "short_first" \/ y.at \in {1, 17, 300}} : case = Case(s, m, "builtin", sc)
Next == UNCHANGED case
Spec == Init /\ [][Next]_case
Emit == PrintT(<<"CASE", ToJson(case)>>)
=============================================================================
