------------------------------ MODULE MC_Cors ------------------------------
(***************************************************************************)
(* The CORS policy as a decision procedure (C11 on the design): for every  *)
(* configuration and request the decision Grants is a function of          *)
(* (configuration, Origin) alone, a request without Origin is never         *)
(* granted, restricted mode grants exactly the configured origins.  The     *)
(* implementation-shaped variant (membership by substring of the            *)
(* comma-joined list, as src/cors does) is refuted by a near-miss origin.   *)
(* Origins are modelled as sequences over a 3-letter alphabet so that       *)
(* "substring" is expressible.                                              *)
(***************************************************************************)
EXTENDS Naturals, Sequences, FiniteSets, TLC

CONSTANT Impl
Letter == {1, 2, 3}       \* 3 = the separator ","
Words(n) == UNION {[1..k -> {1, 2}] : k \in 1..n}
VARIABLES all, origins, has, origin
vars == <<all, origins, has, origin>>

Init == /\ all \in BOOLEAN
        /\ origins \in {<<>>} \cup {<<a>> : a \in Words(2)} \cup {<<a, b>> : a \in Words(2), b \in Words(2)}
        /\ has \in BOOLEAN
        /\ origin \in Words(3) \cup {<<>>} \cup {<<1, 3, 2>>, <<3>>, <<2, 3>>}
Next == UNCHANGED vars
Spec == Init /\ [][Next]_vars

RECURSIVE JoinC(_)
JoinC(os) == IF os = <<>> THEN <<>> ELSE IF Len(os) = 1 THEN os[1] ELSE os[1] \o <<3>> \o JoinC(Tail(os))
SubstringOf(t, s) == \E i \in 1..(Len(s) + 1) : i + Len(t) - 1 <= Len(s) /\ \A k \in 1..Len(t) : s[i + k - 1] = t[k]
Member(o) == \E i \in 1..Len(origins) : origins[i] = o

Grants == IF ~has THEN FALSE
          ELSE IF all THEN TRUE
          ELSE IF Impl THEN SubstringOf(origin, JoinC(origins)) ELSE Member(origin)

NoOriginNoGrant == ~has => ~Grants
ExactMembership == (has /\ ~all) => (Grants <=> Member(origin))
=============================================================================
