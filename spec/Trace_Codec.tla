---------------------------- MODULE Trace_Codec ----------------------------
(***************************************************************************)
(* Trace validation of the library codecs (C14 - C17): every event is one  *)
(* abstract value (or near-miss document) together with what the library's *)
(* writer and reader made of it; the event is judged by the round-trip and  *)
(* accept/reject predicates of the Codec_* modules.                         *)
(***************************************************************************)
EXTENDS Codec_Http, Codec_Multipart, Codec_Percent, Codec_Json, Endpoints, Json, IOUtils, TLC

Rec == ndJsonDeserialize(IOEnv.TRACE)
VARIABLES l, nfail
tvars == <<l, nfail>>
TInit == l = 1 /\ nfail = 0
Ev == Rec[l]

Violations(e) ==
    CASE e.op = "req_roundtrip"  -> ReqRoundTripViolations(e.value, e.obs)
      [] e.op = "req_line"       -> ReqAcceptViolations(e.cls, e.obs)
      [] e.op = "resp_roundtrip" -> RespRoundTripViolations(e.value, e.obs)
      [] e.op = "resp_corrupt"   -> RespRejectViolations(e.cls, e.obs)
      [] e.op = "resp_status_line" -> StatusLineViolations(e.rel, e.obs)
      [] e.op = "resp_struct"    -> RespStructViolations(e.brk, e.obs)
      [] e.op = "multipart_struct" -> MultipartStructViolations(e.brk, e.obs)
      [] e.op = "multipart"      -> MultipartViolations(e.value, e.boundary_b, e.obs)
      [] e.op = "multipart_corrupt" -> MultipartRejectViolations(e.cls, e.obs)
      [] e.op = "boundary_param" -> BoundaryParamViolations(e.value, e.obs)
      [] e.op = "map"            -> MapViolations(e.leg, e.value, e.obs)
      [] e.op = "endpoint"       -> IF e.obs.outcome = "ok" THEN EndpointNotes(e.req, e.obs) ELSE {"E.endpoint_" \o e.obs.outcome}
      [] e.op = "json_object"    -> JsonObjectViolations(e)
      [] e.op = "json_array"     -> JsonArrayViolations(e)
      [] e.op = "json_odd"       -> JsonOddViolations(e)
      [] OTHER -> {"TOOL.unknown_event"}

TStep == /\ l <= Len(Rec)
         /\ LET bad == Violations(Ev) IN
              /\ (IF bad = {} THEN TRUE ELSE PrintT(<<"FAIL", ToJson([i |-> l, props |-> bad])>>))
              /\ nfail' = nfail + (IF bad = {} THEN 0 ELSE 1)
         /\ l' = l + 1
TSpec == TInit /\ [][TStep]_tvars
Done == (l = Len(Rec) + 1) => PrintT(<<"DONE", Len(Rec), nfail>>)
AllConsumed == TLCGet("stats").diameter = Len(Rec) + 1
=============================================================================
