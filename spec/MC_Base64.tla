----------------------------- MODULE MC_Base64 -----------------------------
(***************************************************************************)
(* Model of the streaming Base64 encoder/decoder as rws implements it:     *)
(* the encoder consumes the input in groups of up to three bytes (one      *)
(* action per loop iteration of Base64::encode) and appends four           *)
(* characters per group; the decoder consumes four characters per          *)
(* iteration.  TLC checks, for every input of the bound, that the          *)
(* streaming computation equals the position-wise definition Enc/Dec of    *)
(* Codec_Base64, that the sextet arithmetic agrees with the 24-bit         *)
(* definition of RFC 4648, that the text is canonical and that decoding    *)
(* returns the input.  With Emit = TRUE every input is also printed as a   *)
(* replay case for the implementation.                                      *)
(***************************************************************************)
EXTENDS Codec_Base64, TLC, Json

CONSTANTS B3,        \* byte values used for 3-byte groups and longer inputs
          MaxLen,    \* longest input over B3
          Emit,      \* print replay cases
          CorruptLen \* corruptions are emitted for the texts of inputs of <= CorruptLen bytes over B3

VARIABLES inp, pos, text, tpos, back, phase

vars == <<inp, pos, text, tpos, back, phase>>

Inputs == [1..1 -> Byte] \cup [1..2 -> Byte] \cup UNION {[1..n -> B3] : n \in 0..MaxLen}

Init == /\ inp \in Inputs
        /\ pos = 0 /\ text = <<>> /\ tpos = 0 /\ back = <<>> /\ phase = "enc"

\* one iteration of the encoder loop
EncodeGroup ==
    /\ phase = "enc" /\ pos < Len(inp)
    /\ LET k == IF Len(inp) - pos >= 3 THEN 3 ELSE Len(inp) - pos
       IN /\ text' = text \o EncGroup(SubSeq(inp, pos + 1, pos + k))
          /\ pos' = pos + k
    /\ UNCHANGED <<inp, tpos, back, phase>>

EncodeDone ==
    /\ phase = "enc" /\ pos = Len(inp)
    /\ phase' = "dec"
    /\ UNCHANGED <<inp, pos, text, tpos, back>>

\* one iteration of the decoder loop (four characters)
DecodeGroup ==
    /\ phase = "dec" /\ tpos < Len(text)
    /\ back' = back \o Dec(SubSeq(text, tpos + 1, tpos + 4))
    /\ tpos' = tpos + 4
    /\ UNCHANGED <<inp, pos, text, phase>>

DecodeDone ==
    /\ phase = "dec" /\ tpos = Len(text)
    /\ phase' = "done"
    /\ UNCHANGED <<inp, pos, text, tpos, back>>

Next == EncodeGroup \/ EncodeDone \/ DecodeGroup \/ DecodeDone
Spec == Init /\ [][Next]_vars /\ WF_vars(Next)

-----------------------------------------------------------------------------
\* streaming prefix invariants
EncPrefix   == text = Enc(SubSeq(inp, 1, pos))
DecPrefix   == phase # "enc" => back = Dec(SubSeq(text, 1, tpos))
\* C18 on the design
Canonical   == phase # "enc" => /\ text = Enc(inp)
                                /\ WellFormedText(text)
                                /\ Len(text) = 4 * ((Len(inp) + 2) \div 3)
RoundTrip   == phase = "done" => back = inp /\ Dec(Enc(inp)) = inp
SextetsAgree ==
    (pos = 0 /\ Len(inp) = 3) =>
        LET a == inp[1]  b == inp[2]  c == inp[3]  n == N24(a, b, c)
        IN S1(a) = T1(n) /\ S2(a, b) = T2(n) /\ S3(b, c) = T3(n) /\ S4(c) = T4(n)
AlphaBijective == \A i \in 0..63 : Sextet(Alpha(i)) = i
\* the sweep tables (Codec_Base64!EncCharAt / DecByteAt) are the position-wise definitions
TablesAgree == (pos = 0 /\ Len(inp) = 3) => TablesAgreeOn(inp[1], inp[2], inp[3])
EmitCase    == (Emit /\ pos = 0 /\ phase = "enc") => PrintT(<<"CASE", ToJson([in |-> inp])>>)

\* Corruptions for the decoder: every position of the canonical text of every input over B3, replaced by a
\* representative of each class of foreign character, given as its UTF-8 byte sequence (the decoder's API
\* takes a Rust String).  The multi-byte ones are chosen so that their code point's low byte IS a Base64
\* character or '=' (U+0141 -> 'A', U+012B -> '+', U+013D -> '=', U+0161 -> 'a', U+212A -> '*', U+1F600 -> NUL).
ForeignReps == { <<45>>, <<95>>, <<32>>, <<10>>, <<13>>, <<0>>, <<127>>, <<42>>, <<46>>, <<64>>, <<91>>, <<96>>, <<123>>,
                 <<195, 169>>, <<197, 129>>, <<196, 171>>, <<196, 189>>, <<197, 161>>,
                 <<226, 132, 170>>, <<240, 159, 152, 128>> }
Replace(t, p, r) == SubSeq(t, 1, p - 1) \o r \o SubSeq(t, p + 1, Len(t))
EmitCorruptions ==
    (Emit /\ phase = "dec" /\ tpos = 0 /\ inp \in UNION {[1..n -> B3] : n \in 1..CorruptLen}) =>
        \A p \in 1..Len(text) : \A r \in ForeignReps :
            PrintT(<<"CASE", ToJson([txt |-> Replace(text, p, r)])>>)
Terminates  == <>(phase = "done")

=============================================================================
