SPECIFICATION Spec
CONSTANTS
  B3 = {0, 1, 2, 3, 4, 8, 15, 16, 32, 63, 64, 65, 97, 127, 128, 129, 191, 192, 240, 252, 254, 255}
  MaxLen = 4
  Emit = TRUE
  CorruptLen = 3
INVARIANTS EncPrefix DecPrefix Canonical RoundTrip SextetsAgree AlphaBijective TablesAgree EmitCase EmitCorruptions
CHECK_DEADLOCK FALSE
