SPECIFICATION TSpec
CONSTANTS
  Props = {"C10"}
  ImplSingleWrite = FALSE
INVARIANT Done
POSTCONDITION AllConsumed
CHECK_DEADLOCK FALSE
