SPECIFICATION SSpec
CONSTANTS
  N = 2
  MaxConn = 5
  Guarded = FALSE
INVARIANT TypeOK NoWorkerLost
PROPERTIES Capacity EnvFsUnchanged
CHECK_DEADLOCK FALSE
