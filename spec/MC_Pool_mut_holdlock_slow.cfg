SPECIFICATION Spec
CONSTANTS
  N = 2
  T = 5
  Kind <- K_N2slow
  HoldLock = TRUE
  OneShot = FALSE
  Guarded = TRUE
  Spawned = 2
INVARIANT Safety
PROPERTIES EventuallyShortDone
CHECK_DEADLOCK FALSE
