------------------------------- MODULE Router -------------------------------
(***************************************************************************)
(* Dispatch of a request to one of the server's controllers, as            *)
(* App::execute does it (production entry point): an ORDERED list of       *)
(* matchers, first match answers.  This module covers behaviour the listed *)
(* properties leave free (built-in pages, demo endpoints, the answer to    *)
(* methods other than GET/HEAD/OPTIONS) and pins it to what the code does; *)
(* the part that coincides with the letter of C02 (a file of the reserved  *)
(* name present in the root is served like any other file) is judged by    *)
(* Static!C02Violations itself.                                            *)
(*                                                                         *)
(* Order (src/app/mod.rs):  index, style, script, file-upload, form-url,   *)
(* form-get, form-multipart, favicon, static resource, not found.          *)
(* Deliberate deviations of the code, named here rather than idealised:    *)
(*   - "/" is answered by the index controller for EVERY method;           *)
(*   - index/style/script/favicon compare the whole request target, so a   *)
(*     query string sends the request on to the static lookup;             *)
(*   - the two form POST controllers need a Content-Type header; requests  *)
(*     of this generator carry none, so those kinds are never selected.    *)
(***************************************************************************)
EXTENDS Static

GHO == {"GET", "HEAD", "OPTIONS"}

PathIs(q, names) == q.lead = "/" /\ q.segs = names
UriIs(q, names)  == PathIs(q, names) /\ q.query = "" /\ q.frag = ""

Route(W, q) ==
    IF UriIs(q, <<>>) \/ UriIs(q, <<"">>) THEN "index"
    ELSE IF q.method \in GHO /\ UriIs(q, <<"style.css">>) THEN "style"
    ELSE IF q.method \in GHO /\ UriIs(q, <<"script.js">>) THEN "script"
    ELSE IF q.method = "POST" /\ PathIs(q, <<"file-upload", "initiate">>) THEN "upload"
    ELSE IF q.method = "GET" /\ PathIs(q, <<"form-get-method">>) THEN "form_get"
    ELSE IF q.method \in GHO /\ UriIs(q, <<"favicon.svg">>) THEN "favicon"
    ELSE IF q.method \in GHO /\ Lookup(W, q.segs).sel \in {"file", "index", "html"} THEN "static"
    ELSE IF q.method \in GHO /\ Lookup(W, q.segs).sel = "free" THEN "free"
    ELSE "notfound"

AssetKinds == {"index", "style", "script", "favicon"}
AssetFile(k) == CASE k = "index" -> "index.html" [] k = "style" -> "style.css" [] k = "script" -> "script.js"
                  [] k = "favicon" -> "favicon.svg" [] k = "notfound" -> "404.html"
AssetType(k) == CASE k = "index" -> "text/html" [] k = "style" -> "text/css" [] k = "script" -> "text/javascript"
                  [] k = "favicon" -> "image/svg+xml" [] k = "notfound" -> "text/html"
\* the name the harness gives a body that equals a built-in asset byte for byte
BuiltinName(k) == IF k = "notfound" THEN "404" ELSE k

WithBody(q) == q.method \notin {"HEAD", "OPTIONS"}

\* the answer of an asset-like controller: the file of that name in the root if there is one, else the built-in
AssetViolations(W, q, r, k, wantStatus) ==
    LET f == ResolveFrom(W, W.root, <<AssetFile(k)>>) IN
    (IF r.status = wantStatus THEN {} ELSE {"R." \o k \o "_status"})
    \cup (IF r.status # wantStatus \/ ~WithBody(q) THEN {}
          ELSE IF IsFile(W, f) THEN (IF BodyIsFile(W, f, r) THEN {} ELSE {"R." \o k \o "_not_the_file_in_root"})
          ELSE IF f = NONE THEN (IF r.builtin = BuiltinName(k) THEN {} ELSE {"R." \o k \o "_not_the_builtin"})
          ELSE {})                                        \* a directory of that name: left free
    \cup (IF r.status = wantStatus /\ f = NONE /\ WithBody(q) /\ HdrCount(r, "content-type") = 1
             /\ HdrV(r, "content-type") # AssetType(k) THEN {"R." \o k \o "_content_type"} ELSE {})

RouterViolations(W, q, r) ==
    IF ~(q.entry = "prod" /\ PlainPath(q) /\ ~q.range.present) THEN {}
    ELSE LET k == Route(W, q) IN
         CASE k \in AssetKinds -> AssetViolations(W, q, r, k, 200)
           [] k = "notfound"   -> AssetViolations(W, q, r, k, 404)
           [] k = "form_get"   -> IF r.status = 200 THEN {} ELSE {"R.form_get_status"}
           [] OTHER            -> {}                       \* static: C02/C03/C09; upload, free: not pinned

=============================================================================
