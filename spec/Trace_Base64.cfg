SPECIFICATION Spec
INVARIANT Done
POSTCONDITION AllConsumed
CHECK_DEADLOCK FALSE
