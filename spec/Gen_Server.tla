----------------------------- MODULE Gen_Server -----------------------------
(* History generator for C06 on the wire: every sequence of at most L connections over the history alphabet,
   for each pool size in Sizes. *)
EXTENDS Naturals, Sequences, TLC, Json
CONSTANTS L, Sizes
VARIABLE case
HistKinds == {"valid", "bad", "internal", "close"}
Init == \E n \in Sizes : \E h \in UNION {[1..k -> HistKinds] : k \in 0..L} : case = [n |-> n, hist |-> h]
Next == UNCHANGED case
Spec == Init /\ [][Next]_case
Emit == PrintT(<<"CASE", ToJson(case)>>)
=============================================================================
