SPECIFICATION Spec
CONSTANTS
  Mode = "c01"
  K = 2
INVARIANT Emit
CHECK_DEADLOCK FALSE
