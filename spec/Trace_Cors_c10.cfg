SPECIFICATION TSpec
CONSTANTS
  Props = {"C10"}
INVARIANT Done
POSTCONDITION AllConsumed
CHECK_DEADLOCK FALSE
