SPECIFICATION Spec
CONSTANTS
  Order = "pinned"
INVARIANT C12
CHECK_DEADLOCK FALSE
