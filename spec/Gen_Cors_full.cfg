SPECIFICATION Spec
CONSTANTS
  Full = TRUE
INVARIANT Emit
CHECK_DEADLOCK FALSE
