SPECIFICATION TSpec
CONSTANTS
  Props = {"C09"}
INVARIANT Done
POSTCONDITION AllConsumed
CHECK_DEADLOCK FALSE
