----------------------------- MODULE MC_Static -----------------------------
(***************************************************************************)
(* Design-level check of the lookup (C01/C02 on the specification itself): *)
(* for every world of the menu and every path over the segment alphabet,   *)
(* the documented lookup with the containment rule "a path with a '..'      *)
(* segment selects nothing" never selects a node outside the served root     *)
(* unless a symbolic link inside the root points to it or above it (a purely *)
(* lexical "does not climb" rule is NOT enough: /upd/../s0 leaves through    *)
(* the owner's link to a sibling directory and then walks up -- TLC found    *)
(* this); it is a function of the path only                                  *)
(* (query and fragment are not inputs) and never returns a directory.       *)
(* The implementation-shaped variant Impl = TRUE (plain cwd + path handed    *)
(* to the file system, no containment) must be refuted: TLC's counterexample *)
(* is the shortest escaping target.                                          *)
(***************************************************************************)
EXTENDS Static, Worlds, TLC

CONSTANTS Impl, MaxSegs

VARIABLES w, segs
vars == <<w, segs>>

Tok == {"..", ".", "", "d", "f.txt", "nx", "s0", "s1", "s2", "s3", "o", "up", "upd", "in", "root", "index.html"}

Init == w \in C01Worlds /\ segs \in UNION {[1..n -> Tok] : n \in 0..MaxSegs}
Next == UNCHANGED vars
Spec == Init /\ [][Next]_vars

\* what is served for the path: the contained lookup of the design, or what the file system returns for cwd + path
HasDotDot(s) == \E i \in 1..Len(s) : s[i] = ".."
Selected == IF Impl THEN Lookup(w, segs)
            ELSE IF HasDotDot(segs) THEN [sel |-> "none", node |-> NONE] ELSE Lookup(w, segs)

Contained ==
    Selected.node # NONE =>
        \/ Inside(w, Selected.node)
        \/ (IsFile(w, Selected.node) /\ Node(w, Selected.node).cls = "secret" /\ GrantedBySymlink(w, Selected.node))
NeverADirectory == Selected.node # NONE => IsFile(w, Selected.node)
ClimbIsNone == (~Impl /\ Climbs(segs)) => Selected.sel = "none"
=============================================================================
