------------------------------ MODULE MC_Conn ------------------------------
(* Conn against an adversarial transport: every interleaving of short writes, zero-length accepts and faults for
   responses of up to MaxLen bytes.  With ImplSingleWrite = FALSE the design delivers in full or reports a fault;
   with ImplSingleWrite = TRUE (the pinned tree: one write call, byte count ignored) TLC must find the
   connection that returns Ok with bytes still unsent. *)
EXTENDS Conn, TLC
CONSTANT MaxLen

Next == \/ ReadOk \/ ReadErr
        \/ \E o \in 1..MaxLen, a \in 0..MaxLen, c \in BOOLEAN : Write(o, a, c)
        \/ \E o \in 1..MaxLen, c \in BOOLEAN : WriteErr(o, c)
        \/ FlushOk \/ FlushErr
        \/ \E r \in {"ok", "err"}, e \in BOOLEAN : Return(r, e)
Spec == CInit /\ [][Next]_cvars
OkMeansDelivered == (phase = "returned" /\ result = "ok") => (sent > 0 /\ pending = 0 /\ ~fault)
Bounded == sent <= 3 * MaxLen
=============================================================================
