SPECIFICATION Spec
CONSTANTS
  Mode = "pairs"
INVARIANT Emit
CHECK_DEADLOCK FALSE
