SPECIFICATION Spec
CONSTANTS
  Mode = "c02"
  K = 2
INVARIANT Emit
CHECK_DEADLOCK FALSE
