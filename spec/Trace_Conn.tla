----------------------------- MODULE Trace_Conn -----------------------------
(***************************************************************************)
(* Trace validation of connections (C04, C05, C10): every call the real    *)
(* Server::process made on its (scripted) transport is one event and must  *)
(* be a step of Conn; the bytes the transport accepted are judged by the   *)
(* message-level predicates of HttpMsg at End.                             *)
(*   Begin(i, seed, verdict, app, script, method)  -> CInit                *)
(*   Read(ok)  Write(offered, accepted | -1)  Flush(ok)                    *)
(*   End(outcome, r)   outcome: ok | err (Server::process returned) |      *)
(*                     panic | abort (no Conn action: a crash) |           *)
(*                     hang (the call never returned: spinning on an       *)
(*                     exhausted transport or stalled; no Conn action)     *)
(* Total: every event is consumed; the first protocol deviation of a       *)
(* connection is reported and the remaining transport events of that       *)
(* connection are skipped, its End is still judged.                        *)
(***************************************************************************)
EXTENDS Conn, HttpMsg, Json, IOUtils, TLC

CONSTANT Props     \* subset of {"C04", "C05", "C10"}

Rec == ndJsonDeserialize(IOEnv.TRACE)

VARIABLES l, meta, broken, nfail
tvars == <<cvars, l, meta, broken, nfail>>

NoMeta == [i |-> 0, verdict |-> "any", app |-> "builtin", method |-> "", script |-> [kind |-> "unlimited"]]
TInit == CInit /\ l = 1 /\ meta = NoMeta /\ broken = FALSE /\ nfail = 0

Ev == Rec[l]
Is(e) == l <= Len(Rec) /\ Ev.ev = e
Report(bad) == PrintT(<<"FAIL", ToJson([i |-> l, props |-> bad, conn |-> meta.i])>>)
Fail(bad) == Report(bad) /\ nfail' = nfail + 1
Keep == UNCHANGED cvars

TBegin == /\ Is("Begin")
          /\ phase' = "new" /\ sent' = 0 /\ pending' = 0 /\ fault' = FALSE /\ result' = "none"
          /\ meta' = Ev /\ broken' = FALSE /\ l' = l + 1 /\ UNCHANGED nfail

\* a transport event: either it is a step of Conn, or (first time for this connection) a reported deviation
Step(action, clause) ==
    IF broken THEN Keep /\ UNCHANGED <<broken, nfail>>
    ELSE IF ENABLED action THEN action /\ UNCHANGED <<broken, nfail>>
    ELSE Keep /\ broken' = TRUE /\ Fail({clause})

TRead == /\ Is("Read")
         /\ (IF Ev.ok THEN Step(ReadOk, "C04.read_protocol") ELSE Step(ReadErr, "C04.read_protocol"))
         /\ l' = l + 1 /\ UNCHANGED meta

TWrite == /\ Is("Write")
          /\ (IF Ev.accepted >= 0 THEN Step(Write(Ev.offered, Ev.accepted, Ev.continues), "C05.write_does_not_offer_the_unaccepted_rest")
              ELSE Step(WriteErr(Ev.offered, Ev.continues), "C05.write_does_not_offer_the_unaccepted_rest"))
          /\ l' = l + 1 /\ UNCHANGED meta

TFlush == /\ Is("Flush")
          /\ (IF Ev.ok THEN Step(FlushOk, "C05.flush_before_response_delivered_in_full")
              ELSE Step(FlushErr, "C05.flush_before_response_delivered_in_full"))
          /\ l' = l + 1 /\ UNCHANGED meta

\* ---------------------------------------------------------------- End: the verdict on the connection
Answerable == phase # "new" /\ phase # "read_err"          \* the request bytes arrived
MethodForFraming(r) == IF meta.verdict = "valid" \/ r.status < 400 THEN meta.method ELSE ""

EndViolations(e) ==
    LET r == e.r
        crashed == e.outcome \in {"panic", "abort", "hang"}
        cleanTransport == ~fault /\ meta.script.kind \in {"unlimited", "chunk", "short_first"}
        delivered == ~fault /\ sent > 0 /\ pending = 0
    IN
    (IF "C04" \in Props /\ crashed THEN {IF e.outcome = "hang" THEN "C04.never_answered" ELSE "C04.crash"} ELSE {})
    \cup (IF "C04" \in Props /\ ~crashed /\ Answerable /\ cleanTransport /\ r.raw_len = 0 THEN {"C04.no_response"} ELSE {})
    \cup (IF "C04" \in Props /\ ~crashed /\ delivered /\ meta.verdict = "reject" /\ r.status < 400
          THEN {"C04.unparseable_request_not_an_error_status"} ELSE {})
    \cup (IF "C04" \in Props /\ ~crashed /\ delivered /\ meta.app = "err" /\ meta.verdict = "valid" /\ r.status < 400
          THEN {"C04.handler_error_not_an_error_status"} ELSE {})
    \cup (IF "C04" \in Props /\ ~crashed /\ ~broken /\ ~ENABLED Return(e.outcome, r.status >= 400)
          THEN (IF ~fault /\ pending > 0 THEN {"C05.response_not_delivered_in_full"}
                ELSE IF ~fault /\ sent = 0 THEN {"C04.returned_without_writing_a_response"}
                ELSE {"C04.return_value_inconsistent_with_transport"}) ELSE {})
    \cup (IF "C05" \in Props /\ ~crashed /\ ~broken /\ ~fault /\ pending > 0 THEN {"C05.response_not_delivered_in_full"} ELSE {})
    \cup (IF "C05" \in Props /\ ~crashed /\ cleanTransport /\ pending = 0 /\ r.raw_len > 0
          THEN (IF meta.method \in {"HEAD", "OPTIONS"} /\ meta.verdict # "valid"
                \* a mutated HEAD/OPTIONS request: the server may or may not have recognised the method; either framing is accepted
                THEN WellFormedViolations(r, meta.method) \cap WellFormedViolations(r, "")
                ELSE WellFormedViolations(r, meta.method)) ELSE {})
    \cup (IF "C05" \in Props /\ ~crashed /\ r.raw_len > 0 /\ HasHdr(r, "injected") THEN {"C05.header_injection"} ELSE {})
    \cup (IF "C10" \in Props /\ ~crashed /\ cleanTransport /\ pending = 0 /\ r.raw_len > 0 THEN HardeningViolations(r) ELSE {})

TEnd == /\ Is("End")
        /\ LET bad == EndViolations(Ev) IN
             IF bad = {} THEN UNCHANGED nfail ELSE Fail(bad)
        /\ (IF Ev.outcome \in {"ok", "err"} /\ ~broken /\ ENABLED Return(Ev.outcome, Ev.r.status >= 400)
            THEN Return(Ev.outcome, Ev.r.status >= 400) ELSE Keep)
        /\ l' = l + 1 /\ UNCHANGED <<meta, broken>>

TNext == TBegin \/ TRead \/ TWrite \/ TFlush \/ TEnd
TSpec == TInit /\ [][TNext]_tvars

ConnSafety == DeliveredInFull \/ broken
Done == (l = Len(Rec) + 1) => PrintT(<<"DONE", Len(Rec), nfail>>)
AllConsumed == TLCGet("stats").diameter = Len(Rec) + 1
=============================================================================
