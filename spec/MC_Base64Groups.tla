-------------------------- MODULE MC_Base64Groups --------------------------
(***************************************************************************)
(* Exhaustive design-level check of the 24-bit group arithmetic of          *)
(* Codec_Base64: for ALL 2^24 three-byte groups the position-wise encoder   *)
(* equals RFC 4648's description on the 24-bit integer, the text is         *)
(* canonical, decoding returns the group, and the functional-dependency     *)
(* tables used by the implementation sweep (EncCharAt / DecByteAt) are the  *)
(* same functions.  One initial state per group, no transitions.            *)
(* (The sweep of Trace_Base64 establishes the same for the implementation.) *)
(***************************************************************************)
EXTENDS Codec_Base64

CONSTANTS First,        \* values of the first byte explored by this run (0..255 for the full check)
          Skew          \* 0; a non-zero value perturbs the 24-bit integer (vacuity guard: must be refuted)
VARIABLES a, b, c
FirstAll == 0..255
FirstQuick == {0, 255}

Init == a \in First /\ b \in Byte /\ c \in Byte
Next == UNCHANGED <<a, b, c>>
Spec == Init /\ [][Next]_<<a, b, c>>

GroupOK ==
    LET g == <<a, b, c>>  n == N24(a, b, c) + Skew  t == Enc(g) IN
      /\ S1(a) = T1(n) /\ S2(a, b) = T2(n) /\ S3(b, c) = T3(n) /\ S4(c) = T4(n)
      /\ t = <<Alpha(T1(n)), Alpha(T2(n)), Alpha(T3(n)), Alpha(T4(n))>>
      /\ WellFormedText(t) /\ PadCount(t) = 0
      /\ Dec(t) = g
      /\ TablesAgreeOn(a, b, c)
\* the shorter final groups, for every value of their bytes (c is ignored / b and c are ignored)
TailOK ==
    /\ LET t == Enc(<<a, b>>) IN WellFormedText(t) /\ PadCount(t) = 1 /\ Dec(t) = <<a, b>>
                                 /\ t[1] = Alpha(S1(a)) /\ t[2] = Alpha(S2(a, b)) /\ t[3] = Alpha(S3(b, 0))
    /\ LET t == Enc(<<a>>) IN WellFormedText(t) /\ PadCount(t) = 2 /\ Dec(t) = <<a>>
                              /\ t[1] = Alpha(S1(a)) /\ t[2] = Alpha(S2(a, 0))
=============================================================================
