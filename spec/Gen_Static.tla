----------------------------- MODULE Gen_Static -----------------------------
(***************************************************************************)
(* Case generator for the static-serving properties (C01, C02, C03, C09).  *)
(* Each initial state is one abstract request against one world; TLC       *)
(* enumerates the whole bounded space and prints each case (and each world  *)
(* once) for the harness to concretise and run on the real code.            *)
(***************************************************************************)
EXTENDS Naturals, Sequences, FiniteSets, TLC, Json, Fs, Worlds

CONSTANTS Mode,      \* "c01" | "c02" | "c03" | "c09" | "router"
          K          \* exhaustive bound (segments for c01; specs per header for c03)

VARIABLE case

NoRange == [present |-> FALSE, unit_ok |-> TRUE, ws |-> FALSE, style |-> "plain", specs |-> <<>>]
Num(v)  == [k |-> "n", v |-> v]
Big(v)  == [k |-> "big", v |-> v]        \* 1: u64::MAX, 2: u64::MAX + 1
Junk    == [k |-> "junk", v |-> 0]
FL(a, b) == [t |-> "fl", a |-> a, b |-> b]
Fo(a)    == [t |-> "f", a |-> a, b |-> Junk]
Su(a)    == [t |-> "s", a |-> a, b |-> Junk]
JunkSpec == [t |-> "junk", a |-> Junk, b |-> Junk]
\* style: how the harness spells the header.  "plain" | optional-whitespace / digit spellings with the same meaning
\* ("sp_after_comma", "tab_after_comma", "sp_after_eq", "sp_around_dash", "leading_zeros", "trailing_sp") |
\* "empty_element" (an extra empty list element: malformed, Static treats the header as not satisfiable)
Rng(specs) == [present |-> TRUE, unit_ok |-> TRUE, ws |-> FALSE, style |-> "plain", specs |-> specs]
SameMeaningStyles == {"sp_after_comma", "tab_after_comma", "sp_after_eq", "sp_around_dash", "leading_zeros", "trailing_sp"}

Req(w, entry, method, lead, segs, query, frag, range, origin) ==
    [w |-> w, entry |-> entry, method |-> method, lead |-> lead, segs |-> segs, query |-> query, frag |-> frag,
     range |-> range, has_origin |-> origin # "", origin |-> origin, preflight |-> FALSE]

Entries == {"prod", "legacy"}

-----------------------------------------------------------------------------
\* C01: (a) every target of <= K segments over the core alphabet, on the worlds of depth <= 2 (all link shapes);
\*      (b) climbing skeletons (".."^j name, with detours) crossed with the decoration dimensions, on all worlds
CoreTok == {"..", ".", "", "d", "f.txt", "nx", "%2e%2e", "s0", "s1", "s3", "o", "up", "upd", "root", "in", "..data"}
SegSeqs(Tok, k) == UNION {[1..n -> Tok] : n \in 0..k}
Ups(j) == [i \in 1..j |-> ".."]
SecretNames == {"s0", "s1", "s2", "s3", "f.txt"}
Skeletons ==
    {Ups(j) \o <<nm>> : j \in 1..4, nm \in SecretNames}
    \cup {Ups(j) \o <<"o", "s3">> : j \in 1..2}
    \cup {<<"d">> \o Ups(j) \o <<nm>> : j \in 2..4, nm \in SecretNames}
    \cup {<<".", "">> \o Ups(j) \o <<"">> \o <<nm>> : j \in 1..3, nm \in SecretNames}
    \cup {<<"d", "..", "..", "root", "..", nm>> : nm \in SecretNames}
    \* through a directory whose name contains ".." without being it (the first ".." of the path is not the climbing one)
    \cup {<<dn>> \o Ups(j) \o <<nm>> : dn \in {"..data", "v1..v2", "..."}, j \in 2..4, nm \in SecretNames}
    \cup {<<"d", "a..">> \o Ups(j) \o <<nm>> : j \in 3..4, nm \in SecretNames}
    \cup {<<"..data", "..", "f.txt">>, <<"...", "zqzq.txt">>, <<"d", "a..", "zqzq.txt">>, <<"..data", "..", "..", "o", "s3">>}
    \cup {<<"up">>, <<"upd", "s3">>, <<"upd", "..", "s2">>, <<"upd", "..", "s1">>, <<"in">>, <<"in", "..", "..", "s1">>,
          <<"%2e%2e", "s1">>, <<"%2E%2E", "s1">>, <<"..%2f", "s1">>, <<"..%2fs1">>, <<"%2e%2e%2fs1">>, <<"..;", "s1">>,
          <<"..", "..", "l2", "s2">>, <<"..", "l2", "..", "s1">>,
          <<"..", "root-private", "s4">>, <<"..", "root.bak">>, <<"d", "..", "..", "root-private", "s4">>, <<"..", "root-private", "..", "root.bak">>,
          <<"..", "root", "f.txt">>, <<"d", "..", "f.txt">>,
          \* a planted secret named by its ABSOLUTE location (the harness substitutes @ABSTOP@), after an encoded, doubly encoded,
          \* back-slash or plain leading separator: a path builder that lets a segment restart at the file-system root
          <<"%2F@ABSTOP@", "s0">>, <<"%2f@ABSTOP@", "s0">>, <<"%252F@ABSTOP@", "s0">>, <<"%5C@ABSTOP@", "s0">>, <<"@ABSTOP@", "s0">>,
          <<"", "@ABSTOP@", "s0">>, <<"d", "%2F@ABSTOP@", "s0">>, <<"%2F@ABSTOP@", "s0.html">>, <<"C:%5C@ABSTOP@", "s0">>}      \* the last two re-enter / stay inside: free for C01 unless bytes of a secret appear
\* (c) one-segment spellings that only climb if the server decodes them: an encoded (or doubly encoded, or
\*     back-slash) separator glued to plain or encoded dots.  The specification has no decoding step, so each is an
\*     ordinary (absent) name and must never produce secret bytes.
EncDots == {"..", "%2e%2e", "%2E%2E", ".%2e", "%2E.", "%252e%252e"}
EncSeps == {"%2f", "%2F", "%5c", "%5C", "\\", "%252f", "%252F"}
Rep(x, j) == IF j = 1 THEN x ELSE x \o x
EncSkeletons == {<<Rep(d \o sp, j) \o nm>> : d \in EncDots, sp \in EncSeps, j \in 1..2, nm \in {"s0", "s1", "s2", "f.txt"}}
Leads == {"/", "", "//h", "http://h", "http://h/", "/./", "//", "/?x=/", "/#/"}
QF == {<<"", "">>, <<"?q=1", "">>, <<"", "#top">>, <<"?q=1", "#top">>, <<"?a=/../../s0", "">>}
C01Ranges == {NoRange, Rng(<<Fo(Num(0))>>), Rng(<<FL(Num(0), Num(0))>>), Rng(<<Su(Num(1))>>),
              Rng(<<FL(Num(0), Num(1)), FL(Num(2), Num(3))>>)}
C01Init ==
    \/ \E W \in {V \in C01Worlds : V.id <= 8}, e \in Entries, s \in SegSeqs(CoreTok, K) :
            case = Req(W.id, e, "GET", "/", s, "", "", NoRange, "")
    \/ \E W \in C01Worlds, e \in Entries, ld \in Leads, s \in Skeletons :
            case = Req(W.id, e, "GET", ld, s, "", "", NoRange, "")
    \/ \E W \in C01Worlds, e \in Entries, m \in {"GET", "HEAD", "POST"}, qf \in QF, s \in Skeletons :
            case = Req(W.id, e, m, "/", s, qf[1], qf[2], NoRange, "")
    \/ \E W \in C01Worlds, e \in Entries, rg \in C01Ranges, s \in Skeletons :
            case = Req(W.id, e, "GET", "/", s, "", "", rg, "")
    \/ \E W \in {V \in C01Worlds : V.id <= 8}, e \in Entries, rg \in {NoRange, Rng(<<Fo(Num(0))>>)}, s \in EncSkeletons :
            case = Req(W.id, e, "GET", "/", s, "", "", rg, "")

-----------------------------------------------------------------------------
\* C02: every path derived from the tree, plus near misses, with and without query / fragment
RECURSIVE PathTo(_, _)
PathTo(W, n) == IF n = W.root THEN <<>> ELSE Append(PathTo(W, Node(W, n).parent), Node(W, n).name)
InsideNodes(W) == {n \in Nodes(W) : n # W.root /\ Inside(W, n)}
\* children reached through a link to a directory
LinkTarget(W, k) == ResolveFrom(W, Node(W, k).parent, Node(W, k).tsegs)
ViaLinks(W) ==
    UNION {{Append(PathTo(W, k), Node(W, c).name) :
              c \in {y \in Nodes(W) : y # Top /\ IsDir(W, LinkTarget(W, k)) /\ Node(W, y).parent = LinkTarget(W, k)}}
           : k \in {x \in InsideNodes(W) : IsLink(W, x)}}
Variants(W, n) ==
    LET p == PathTo(W, n)  nd == Node(W, n)  last == Len(p) IN
    {p, Append(p, ""), Append(p, "nx"), [p EXCEPT ![last] = "nx-" \o @],
     SubSeq(p, 1, last - 1) \o <<"", nd.name>>}
    \cup (IF nd.stem # "" THEN {[p EXCEPT ![last] = nd.stem], [p EXCEPT ![last] = nd.stem] \o <<"">>} ELSE {})
C02Paths(W) == UNION {Variants(W, n) : n \in InsideNodes(W)} \cup ViaLinks(W)
                \cup {<<>>, <<"">>, <<"", "">>, <<"nx", "index.html">>, <<"404.html">>}
\* (a query or fragment that looks like a path or carries an extension must not influence lookup or media type)
C02QF == {<<"", "">>, <<"?q=1", "">>, <<"", "#top">>, <<"?k=v&x=%2F", "#f">>}
\* on one world: queries / fragments that look like paths, carry extensions or dot-segments, or are empty
C02QFx == {<<"?v=1.css", "">>, <<"?p=/a/b.png", "#x.js">>, <<"?", "">>, <<"?next=/docs/../about", "">>, <<"", "#/../top">>, <<"?back=/..", "">>,
           <<"?a=..", "#..">>, <<"?u=http://h/x/./y", "">>}
C02Cases(u) ==
    UNION {{Req(W.id, "prod", "GET", "/", s, qf[1], qf[2], NoRange, "") : qf \in C02QF, s \in C02Paths(W)} : W \in C02Worlds}
    \cup {Req(23, "prod", "GET", "/", s, qf[1], qf[2], NoRange, "") : qf \in C02QFx, s \in C02Paths(FlatWorld(23))}

-----------------------------------------------------------------------------
\* C03: every single spec with offsets from {0,1,L-2,L-1,L,L+1,u64max,>u64max,junk}; pairs from a reduced set
\*      files of about 8 KiB also get the offsets around the 4 KiB block boundary; the large file gets slices whose
\*      LENGTH is a whole number of I/O blocks (16, 32, 64 KiB), where chunked readers go wrong
OffsetsFor(L) == {Num(v) : v \in {0, 1, L, L + 1} \cup (IF L >= 1 THEN {L - 1} ELSE {}) \cup (IF L >= 2 THEN {L - 2} ELSE {})
                                 \cup (IF L >= 8000 /\ L <= 10000 THEN {4095, 4096, 4097} ELSE {})}
                 \cup {Big(1), Big(2), Junk}
BlockSpecs(L) == IF L > 65536
                 THEN {FL(Num(0), Num(65535)), FL(Num(1), Num(65536)), Su(Num(65536)), Fo(Num(L - 65536)),
                       FL(Num(0), Num(32767)), FL(Num(100), Num(100 + 16383)), FL(Num(0), Num(65536)), FL(Num(0), Num(65534))}
                 ELSE {}
Singles(L) == {FL(a, b) : a \in OffsetsFor(L), b \in OffsetsFor(L)} \cup {Fo(a) : a \in OffsetsFor(L)}
              \cup {Su(a) : a \in OffsetsFor(L)} \cup {JunkSpec} \cup BlockSpecs(L)
Reduced(L) == {FL(Num(0), Num(0)), Fo(Num(0)), Su(Num(1)), JunkSpec, FL(Num(0), Num(L)), Su(Num(L + 1))} \cup BlockSpecs(L)
              \cup (IF L >= 1 THEN {FL(Num(0), Num(L - 1)), FL(Num(L - 1), Num(L - 1)), Fo(Num(L - 1)), Su(Num(L))} ELSE {})
              \cup (IF L >= 2 THEN {FL(Num(1), Num(L - 2)), FL(Num(L - 2), Num(L - 1)), Su(Num(2)), FL(Num(1), Num(0))} ELSE {})
Multi(L, k) == UNION {[1..n -> Reduced(L)] : n \in 2..k}
C03Cases(u) ==
    \* the 70 000-byte file gets every single spec only in the thorough tier (K >= 3); otherwise the reduced set
    UNION {{Req(31, "prod", "GET", "/", <<RangeName(i)>>, "", "", Rng(<<s>>), "") :
                s \in (IF RangeLens[i] > 10000 /\ K < 3 THEN Reduced(RangeLens[i]) ELSE Singles(RangeLens[i]))} : i \in 1..Len(RangeLens)}
    \cup UNION {{Req(31, "prod", "GET", "/", <<RangeName(i)>>, "", "", Rng(ss), "") : ss \in Multi(RangeLens[i], K)} : i \in {3, 4, 5, 7}}
    \cup {Req(31, "prod", "GET", "/", <<RangeName(i)>>, "", "", [Rng(ss) EXCEPT !.ws = TRUE], "") :
            i \in {5}, ss \in UNION {[1..n -> Reduced(10)] : n \in 1..2}}
    \cup {Req(31, "prod", "GET", "/", <<RangeName(i)>>, "", "", [Rng(ss) EXCEPT !.style = st], "") :
            i \in {5}, st \in SameMeaningStyles \cup {"empty_element"}, ss \in UNION {[1..n -> Reduced(10)] : n \in 1..2}}
    \cup {Req(31, "prod", "GET", "/", <<RangeName(i)>>, "", "", [Rng(<<s>>) EXCEPT !.unit_ok = FALSE], "") :
            i \in {1, 5}, s \in {FL(Num(0), Num(0)), Fo(Num(0))}}
    \cup {Req(31, "prod", "GET", "/", <<RangeName(i)>>, "", "", Rng(<<>>), "") : i \in {1, 5}}
    \* the NUMBER of specs around powers of two (a server-side cap must not silently drop parts)
    \cup {Req(31, "prod", "GET", "/", <<RangeName(5)>>, "", "", Rng([j \in 1..n |-> FL(Num((j - 1) % 10), Num((j - 1) % 10))]), "") :
            n \in (IF K >= 3 THEN {4, 8, 9, 16, 17, 32, 33, 64, 65, 100, 129} ELSE {9, 17, 33, 65})
                   \cup {255, 256, 257, 1023, 1024, 1025, 2000}}       \* long lists: judged by status, framing and part count (Static!BigList)
    \* slices longer than any plausible chunk size (1, 4, 8 MiB and one byte more or less; 10 and 12 MB), none reaching the last byte
    \cup {Req(32, "prod", "GET", "/", <<"big12m.bin">>, "", "", Rng(<<FL(Num(lo), Num(lo + n - 1))>>), "") :
            lo \in {0, 3}, n \in {1048576, 1048577, 4194304, 4194305, 8388607, 8388608, 8388609, 10000000, 12582900}}
    \* the product of file length and number of ranges beyond 2^31 and 2^32
    \cup {Req(32, "prod", "GET", "/", <<"big2m.bin">>, "", "", Rng([j \in 1..n |-> FL(Num((j - 1) % 10), Num((j - 1) % 10))]), "") : n \in {1100, 2000}}
    \cup UNION {{Req(21, "prod", "GET", "/", sg[1], "", "", Rng(ss), "") : ss \in {<<x>> : x \in Reduced(sg[2])} \cup {<<FL(Num(0), Num(1)), Su(Num(2))>>}}
               : sg \in {<<<<"docs">>, 8192>>, <<<<"docs", "">>, 8192>>, <<<<"page">>, 4096>>, <<<<"lnk">>, 256>>, <<<<"ldir", "readme.md">>, 4095>>,
                          <<<<"docs", "deep", "deep">>, 5>>}}

-----------------------------------------------------------------------------
\* C09: GET / HEAD / OPTIONS triples for every servable path, with and without Origin / preflight / Range
Servable(W) == {s \in C02Paths(W) : LET n == ResolveFrom(W, W.root, s) IN n # NONE}
               \cup {<<"style.css">>, <<"script.js">>, <<"favicon.svg">>}
C09Cases(u) ==
    UNION {{[Req(W.id, e, "GET", "/", s, "", "", rg, org) EXCEPT !.preflight = pf] :
              e \in Entries, s \in Servable(W),
              rg \in {NoRange, Rng(<<FL(Num(0), Num(0))>>)}, org \in {"", "https://a.example"}, pf \in {FALSE, TRUE}}
           : W \in {MixWorld(21, FALSE), FlatWorld(23)}}
    \* the same resource spelt with a query or a fragment (cache-busting suffixes, a query that ends like another media type):
    \* every equivalent spelling applies to every method
    \cup UNION {{Req(W.id, e, "GET", "/", s, qf[1], qf[2], rg, "") :
              e \in Entries, s \in Servable(W), qf \in {<<"?v=3", "">>, <<"", "#top">>, <<"?a=b&c=d.txt", "">>, <<"?x.png", "#y.css">>},
              rg \in {NoRange, Rng(<<FL(Num(0), Num(0))>>)}}
           : W \in {MixWorld(21, FALSE), FlatWorld(23)}}
    \* every kind of range-spec with HEAD and OPTIONS (open-ended, suffix, two specs, beyond the end), on one tree, production entry
    \cup {Req(21, "prod", "GET", "/", s, "", "", rg, "") :
            s \in {<<"b.bin">>, <<"docs">>, <<"page">>, <<"lnk">>, <<"a.txt">>, <<"docs", "readme.md">>},
            rg \in {Rng(<<Fo(Num(1))>>), Rng(<<Su(Num(2))>>), Rng(<<Fo(Num(0))>>), Rng(<<FL(Num(1), Num(3))>>), Rng(<<FL(Num(0), Num(1)), Su(Num(1))>>),
                    Rng(<<FL(Num(0), Num(99999))>>), Rng(<<Su(Num(99999))>>)}}

-----------------------------------------------------------------------------
\* Router: reserved names, their spellings with query / in a sub-directory / in upper case, unknown paths and the
\* form-get endpoint x nine methods, on every world incl. the one that holds its own copy of each asset
RouterTargets == {<<<<>>, "">>, <<<<>>, "?x=1">>, <<<<"">>, "">>, <<<<"index.html">>, "">>,
                  <<<<"style.css">>, "">>, <<<<"style.css">>, "?v=1">>, <<<<"script.js">>, "">>, <<<<"favicon.svg">>, "">>,
                  <<<<"sub", "style.css">>, "">>, <<<<"sub", "favicon.svg">>, "">>, <<<<"STYLE.CSS">>, "">>, <<<<"", "style.css">>, "">>,
                  <<<<"404.html">>, "">>, <<<<"nx">>, "">>, <<<<"nx", "deeper.txt">>, "?q">>,
                  <<<<"form-get-method">>, "">>, <<<<"form-get-method">>, "?k=v&k2=v2">>, <<<<"form-get-method", "x">>, "">>}
RouterMethods == {"GET", "HEAD", "OPTIONS", "POST", "PUT", "DELETE", "PATCH", "TRACE", "CONNECT"}
RouterCases(u) ==
    {Req(W.id, "prod", m, "/", t[1], t[2], "", NoRange, org) :
        W \in RouterWorlds, m \in RouterMethods, t \in RouterTargets, org \in {"", "https://a.example"}}

Cases == CASE Mode = "c02" -> C02Cases(0)
           [] Mode = "router" -> RouterCases(0)
           [] Mode = "c03" -> C03Cases(0)
           [] Mode = "c09" -> C09Cases(0)

UsedWorlds == CASE Mode = "c01" -> C01Worlds [] Mode = "c02" -> C02Worlds [] Mode = "c03" -> {RangeWorld, MixWorld(21, FALSE), BigWorld}
                [] Mode = "router" -> RouterWorlds
                [] Mode = "c09" -> {MixWorld(21, FALSE), FlatWorld(23)}

ASSUME \A W \in UsedWorlds : WorldOK(W) /\ PrintT(<<"WORLD", ToJson(W)>>)

Init == IF Mode = "c01" THEN C01Init ELSE case \in Cases
Next == UNCHANGED case
Spec == Init /\ [][Next]_case
Emit == PrintT(<<"CASE", ToJson(case)>>)
=============================================================================
