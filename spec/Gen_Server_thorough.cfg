SPECIFICATION Spec
CONSTANTS
  L = 4
  Sizes = {1, 2}
INVARIANT Emit
CHECK_DEADLOCK FALSE
