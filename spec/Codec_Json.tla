----------------------------- MODULE Codec_Json -----------------------------
(***************************************************************************)
(* JSON serialisation of the library (C19).  A value of the supported      *)
(* model is projected (by the harness, mechanically) to a record in which  *)
(* every optional field is [p, v], integers are canonical decimal strings   *)
(* and floats are IEEE-754 bit patterns ("bits:<hex>"); the same projection *)
(* is applied to what the library parsed back (obs) and to what an          *)
(* independent JSON parser made of the emitted text (ind).  Integers the    *)
(* independent parser cannot represent (beyond 64 bits) are not compared.   *)
(***************************************************************************)
EXTENDS Naturals, Sequences, FiniteSets

Fields == {"s", "b", "i", "f", "obj", "objs", "ints", "strs"}
Big == "<beyond-64-bit>"
IntEq(x, y) == y = x \/ y = Big
\* "an equal value": IEEE equality, under which the two zeros are equal
Zeros == {"bits:0000000000000000", "bits:8000000000000000", "bits:00000000", "bits:80000000"}
FloatEq(x, y) == x = y \/ (x \in Zeros /\ y \in Zeros)
SeqEqBy(Eq(_, _), a, b) == Len(a) = Len(b) /\ \A j \in 1..Len(a) : Eq(a[j], b[j])

\* chain: the leaves nested below this one (the same record type inside itself), outermost first
LeafEq(a, b)  == /\ a.name = b.name /\ IntEq(a.n, b.n)
                 /\ Len(a.chain) = Len(b.chain)
                 /\ \A j \in 1..Len(a.chain) : a.chain[j].name = b.chain[j].name /\ IntEq(a.chain[j].n, b.chain[j].n)
                 \* tags: an array of integers inside a leaf (which itself sits inside an array or a nested object)
                 /\ a.tags.p = b.tags.p /\ (a.tags.p => SeqEqBy(IntEq, a.tags.v, b.tags.v))
OptLeafEq(a, b) == a.p = b.p /\ (a.p => LeafEq(a.v, b.v))
\* items: an array of objects inside the nested object (containers inside containers: every kind inside every kind)
InnerEq(a, b) == /\ a.label = b.label /\ a.flag = b.flag /\ OptLeafEq(a.leaf, b.leaf)
                 /\ a.items.p = b.items.p /\ (a.items.p => SeqEqBy(LeafEq, a.items.v, b.items.v))

\* field-wise agreement of the independent parse with the value
IndFieldEq(k, a, b) ==
    /\ a.p = b.p
    /\ a.p => CASE k = "i"    -> IntEq(a.v, b.v)
                [] k = "obj"  -> InnerEq(a.v, b.v)
                [] k = "objs" -> Len(a.v) = Len(b.v) /\ \A j \in 1..Len(a.v) : LeafEq(a.v[j], b.v[j])
                [] k = "ints" -> Len(a.v) = Len(b.v) /\ \A j \in 1..Len(a.v) : IntEq(a.v[j], b.v[j])
                [] k = "f"    -> FloatEq(a.v, b.v)
                [] OTHER      -> a.v = b.v

JsonObjectViolations(e) ==
    (IF e.obs.outcome # "ok" THEN {"C19.own_text_not_parsed_back"}
     ELSE {"C19.round_trip." \o k : k \in {x \in Fields : IF x = "f" THEN ~(e.obs.parsed[x].p = e.value[x].p /\ FloatEq(e.obs.parsed[x].v, e.value[x].v))
                                                          ELSE e.obs.parsed[x] # e.value[x]}})
    \cup (IF e.ind.outcome = "unsupported" THEN {}        \* a documented limitation of the independent parser, not judged
          ELSE IF e.ind.outcome # "ok" THEN {"C19.not_valid_json"}
          ELSE {"C19.meaning." \o k : k \in {x \in Fields : ~IndFieldEq(x, e.value[x], e.ind.parsed[x])}}
               \cup (IF e.ind.parsed.extra_keys = 0 THEN {} ELSE {"C19.meaning.extra_keys"}))

\* a struct with unusual property names (camelCase, upper case, digits, names that are prefixes of one another or equal to
\* JSON literals, a blank inside): every field by name, values as text
OddNames == {"userName", "ID", "x", "xx", "X", "a_b2", "true", "null", "Is Set"}
OddInts  == {"ID", "a_b2", "null"}
JsonOddViolations(e) ==
    (IF e.obs.outcome # "ok" THEN {"C19.own_text_not_parsed_back"}
     ELSE {"C19.round_trip.name." \o n : n \in {x \in OddNames : e.obs.parsed[x] # e.value[x]}})
    \cup (IF e.ind.outcome # "ok" THEN {"C19.not_valid_json"}
          ELSE {"C19.meaning.name." \o n : n \in {x \in OddNames : IF x \in OddInts THEN ~IntEq(e.value[x], e.ind.parsed[x]) ELSE e.ind.parsed[x] # e.value[x]}}
               \cup (IF e.ind.keys = Cardinality(OddNames) THEN {} ELSE {"C19.meaning.extra_keys"}))

JsonArrayViolations(e) ==
    (IF e.obs.outcome # "ok" THEN {"C19.array_not_parsed_back"}
     ELSE IF SeqEqBy(FloatEq, e.value.items, e.obs.items) THEN {} ELSE {"C19.array_round_trip"})
    \cup (IF e.ind.outcome = "unsupported" THEN {}
          ELSE IF e.ind.outcome # "ok" THEN {"C19.array_not_valid_json"}
          ELSE IF Len(e.ind.items) = Len(e.value.items) /\ \A j \in 1..Len(e.value.items) :
                         (IntEq(e.value.items[j], e.ind.items[j]) \/ FloatEq(e.value.items[j], e.ind.items[j]))
               THEN {} ELSE {"C19.array_meaning"})
=============================================================================
