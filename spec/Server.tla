------------------------------- MODULE Server -------------------------------
(***************************************************************************)
(* The running server as its clients and its file system see it            *)
(* (src/server/mod.rs Server::run + the pool): an accept loop that hands    *)
(* every accepted connection to one of N workers; a worker is occupied by   *)
(* a connection from the moment it starts reading until the response is     *)
(* written or the connection ends.                                          *)
(*                                                                         *)
(* Connection kinds (the history alphabet of C06):                          *)
(*   "valid"     a well-formed request: answered, worker released           *)
(*   "bad"       malformed / fault-provoking request: answered with an      *)
(*               error status (C04), worker released                        *)
(*   "internal"  request handling fails internally (a panic below the       *)
(*               handler): worker released iff Guarded                      *)
(*   "close"     the client connects and closes / resets / sends half a     *)
(*               request and closes: no answer owed, worker released        *)
(*   "hold"      the client connects and stays silent: occupies a worker    *)
(*               until it is released by the client                         *)
(*                                                                         *)
(* State that connections could share -- the environment (configuration)    *)
(* and the file system -- is written by no action: C08's isolation and      *)
(* C13's read-only guarantee are the action property EnvFsUnchanged.        *)
(***************************************************************************)
EXTENDS Naturals, Sequences, FiniteSets

CONSTANTS N,           \* worker threads
          MaxConn,     \* bound on connection ids for model checking
          Guarded      \* a job that fails internally does not end its worker

Kinds == {"valid", "bad", "internal", "close", "hold"}

VARIABLES alive,       \* set of live workers
          serving,     \* [worker -> connection id being served, 0 if idle]
          queue,       \* accepted connections not yet taken by a worker
          kind,        \* [connection -> kind]
          status,      \* [connection -> "none" | "queued" | "running" | "answered" | "ended"]
          nconn,       \* connections accepted so far
          env, fs      \* configuration and file-system manifest (abstract values)

svars == <<alive, serving, queue, kind, status, nconn, env, fs>>

SInit == /\ alive = 1..N /\ serving = [w \in 1..N |-> 0] /\ queue = <<>>
         /\ kind = [c \in 1..MaxConn |-> "valid"] /\ status = [c \in 1..MaxConn |-> "none"]
         /\ nconn = 0 /\ env = "env0" /\ fs = "fs0"

\* listener.incoming() yields a connection; pool.execute queues the job
Accept(k) ==
    /\ nconn < MaxConn /\ k \in Kinds
    /\ nconn' = nconn + 1
    /\ kind' = [kind EXCEPT ![nconn + 1] = k]
    /\ status' = [status EXCEPT ![nconn + 1] = "queued"]
    /\ queue' = Append(queue, nconn + 1)
    /\ UNCHANGED <<alive, serving, env, fs>>

\* an idle live worker takes the oldest queued connection
Dispatch(w) ==
    /\ w \in alive /\ serving[w] = 0 /\ queue # <<>>
    /\ serving' = [serving EXCEPT ![w] = Head(queue)]
    /\ status' = [status EXCEPT ![Head(queue)] = "running"]
    /\ queue' = Tail(queue)
    /\ UNCHANGED <<alive, kind, nconn, env, fs>>

\* the job ends: answered (valid, bad, guarded internal failure), or just ended (close); a hold stays until released
Complete(w) ==
    /\ w \in alive /\ serving[w] # 0
    /\ LET c == serving[w] IN
         /\ kind[c] # "hold"
         /\ status' = [status EXCEPT ![c] = IF kind[c] \in {"valid", "bad"} \/ (kind[c] = "internal" /\ Guarded)
                                             THEN "answered" ELSE "ended"]
         /\ alive' = IF kind[c] = "internal" /\ ~Guarded THEN alive \ {w} ELSE alive
    /\ serving' = [serving EXCEPT ![w] = 0]
    /\ UNCHANGED <<queue, kind, nconn, env, fs>>

\* the client of a held connection goes away
Release(c) ==
    /\ c \in 1..nconn /\ kind[c] = "hold" /\ status[c] = "running"
    /\ \E w \in alive : serving[w] = c /\ serving' = [serving EXCEPT ![w] = 0]
    /\ status' = [status EXCEPT ![c] = "ended"]
    /\ UNCHANGED <<alive, queue, kind, nconn, env, fs>>

SNext == \/ \E k \in Kinds : Accept(k)
         \/ \E w \in 1..N : Dispatch(w) \/ Complete(w)
         \/ \E c \in 1..MaxConn : Release(c)

SFair == \A w \in 1..N : WF_svars(Dispatch(w)) /\ WF_svars(Complete(w))
SSpec == SInit /\ [][SNext]_svars /\ SFair

-----------------------------------------------------------------------------
Held == {c \in 1..nconn : kind[c] = "hold" /\ status[c] = "running"}
\* C06: no past connection permanently removes a worker ...
NoWorkerLost == alive = 1..N
\* ... so with fewer than N connections held open, every other accepted connection is eventually done
Capacity == \A c \in 1..MaxConn :
               [](status[c] = "queued" /\ kind[c] # "hold" /\ Cardinality({d \in 1..MaxConn : kind[d] = "hold"}) < N
                    => <>(status[c] \in {"answered", "ended"}))
\* C08 / C13: no action writes the configuration or the file system
EnvFsUnchanged == [][env' = env /\ fs' = fs]_svars
TypeOK == /\ alive \subseteq 1..N /\ nconn \in 0..MaxConn
          /\ \A w \in 1..N : serving[w] \in 0..MaxConn
=============================================================================
