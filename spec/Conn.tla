-------------------------------- MODULE Conn --------------------------------
(***************************************************************************)
(* One connection through Server::process (src/server/mod.rs), seen from   *)
(* its transport: the calls the server makes on the stream and what the    *)
(* stream answers.  One action per call:                                   *)
(*                                                                         *)
(*   Read(ok | error)        stream.read(buffer)      exactly once, first   *)
(*   Write(offered, accepted | error)   stream.write / write_all pieces     *)
(*   Flush(ok | error)       stream.flush()                                 *)
(*   Return(ok | err)        Server::process returns                        *)
(*   (a panic, abort, stack overflow or process exit has NO action)         *)
(*                                                                         *)
(* The transport is the environment: it may accept fewer bytes than         *)
(* offered (short write), accept zero (= it can take no more: a fault), or  *)
(* fail.  The server must behave     *)
(* like write_all: the complete response is offered by the first call, and  *)
(* every later call offers exactly what is still unaccepted, until nothing  *)
(* remains or the transport reports an error.                               *)
(*                                                                         *)
(* ImplSingleWrite = TRUE is the implementation-shaped variant of the       *)
(* pinned tree (one write call, the result's byte count ignored).           *)
(***************************************************************************)
EXTENDS Naturals, Sequences

CONSTANT ImplSingleWrite

VARIABLES phase,        \* "new", "read_ok", "read_err", "writing", "flushed", "returned"
          total,        \* length of the complete response (known from the first write call; 0 = nothing offered yet)
          remaining,    \* bytes of it not yet accepted by the transport
          fault,        \* a transport fault happened (read / write / flush error)
          result        \* "none" | "ok" | "err"

cvars == <<phase, total, remaining, fault, result>>

CInit == phase = "new" /\ total = 0 /\ remaining = 0 /\ fault = FALSE /\ result = "none"

ReadOk  == phase = "new" /\ phase' = "read_ok" /\ UNCHANGED <<total, remaining, fault, result>>
ReadErr == phase = "new" /\ phase' = "read_err" /\ fault' = TRUE /\ UNCHANGED <<total, remaining, result>>

\* a write call offering `offered` bytes of which the transport accepts `accepted`
Write(offered, accepted) ==
    /\ phase \in {"read_ok", "read_err", "writing"}
    /\ accepted <= offered
    /\ IF total = 0
       THEN /\ offered > 0 /\ total' = offered /\ remaining' = offered - accepted
       ELSE /\ remaining > 0 /\ offered = remaining          \* a retry offers exactly the unaccepted rest
            /\ total' = total /\ remaining' = remaining - accepted
    /\ phase' = "writing"
    /\ fault' = (fault \/ accepted = 0)      \* Ok(0) for a non-empty buffer: the transport cannot take more (WriteZero)
    /\ UNCHANGED result

WriteErr(offered) ==
    /\ phase \in {"read_ok", "read_err", "writing"}
    /\ (total = 0 \/ offered = remaining)
    /\ fault' = TRUE /\ phase' = "writing"
    /\ total' = IF total = 0 THEN offered ELSE total
    /\ remaining' = IF total = 0 THEN offered ELSE remaining
    /\ UNCHANGED result

\* flush only after everything was accepted (flushing a half-sent response and stopping is the single-write bug)
FlushOk  == /\ phase = "writing" /\ (ImplSingleWrite \/ remaining = 0) /\ phase' = "flushed"
            /\ UNCHANGED <<total, remaining, fault, result>>
FlushErr == /\ phase = "writing" /\ (ImplSingleWrite \/ remaining = 0) /\ phase' = "flushed" /\ fault' = TRUE
            /\ UNCHANGED <<total, remaining, result>>

\* Ok only when a complete response went out; Err is legitimate after a transport fault, or after an error
\* response has been delivered in full (Server::process reports parse errors to its caller after answering)
Return(r, errorStatus) ==
    /\ phase \in {"flushed", "writing"}
    /\ r \in {"ok", "err"}
    /\ (r = "ok" => phase = "flushed" /\ ~fault /\ total > 0 /\ (ImplSingleWrite \/ remaining = 0))
    /\ (r = "err" => fault \/ (phase = "flushed" /\ total > 0 /\ (ImplSingleWrite \/ remaining = 0) /\ errorStatus))
    /\ phase' = "returned" /\ result' = r
    /\ UNCHANGED <<total, remaining, fault>>

\* C04/C05 on the design: a connection whose transport never failed ends with the whole response delivered
DeliveredInFull == (phase = "returned" /\ ~fault) => (total > 0 /\ remaining = 0)
=============================================================================
