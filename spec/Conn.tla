-------------------------------- MODULE Conn --------------------------------
(***************************************************************************)
(* One connection through Server::process (src/server/mod.rs), seen from   *)
(* its transport: the calls the server makes on the stream and what the    *)
(* stream answers.  One action per call:                                   *)
(*                                                                         *)
(*   Read(ok | error)        stream.read(buffer)      exactly once, first   *)
(*   Write(offered, accepted | error)   stream.write / write_all pieces     *)
(*   Flush(ok | error)       stream.flush()                                 *)
(*   Return(ok | err)        Server::process returns                        *)
(*   (a panic, abort, stack overflow or process exit has NO action)         *)
(*                                                                         *)
(* The transport is the environment: it may accept fewer bytes than         *)
(* offered (short write), accept zero (= it can take no more: a fault), or  *)
(* fail.  The server may hand the response over in one piece or in several  *)
(* (head then body, buffered chunks, a flush in between); what it must do   *)
(* is behave like write_all on every piece: a call that follows a short     *)
(* write offers first exactly the bytes that were left unaccepted           *)
(* (`continues`, observed by the transport), nothing is flushed or reported *)
(* as delivered while bytes are pending.  That the accepted bytes are one   *)
(* complete response is HttpMsg's part (Content-Length = body).             *)
(*                                                                         *)
(* ImplSingleWrite = TRUE is the implementation-shaped variant of the       *)
(* pinned tree (one write call, the result's byte count ignored).           *)
(***************************************************************************)
EXTENDS Naturals, Sequences

CONSTANT ImplSingleWrite

VARIABLES phase,        \* "new", "read_ok", "read_err", "writing", "flushed", "returned"
          sent,         \* bytes accepted by the transport so far
          pending,      \* bytes offered by the last write call and not accepted
          fault,        \* a transport fault happened (read / write / flush error)
          result        \* "none" | "ok" | "err"

cvars == <<phase, sent, pending, fault, result>>

CInit == phase = "new" /\ sent = 0 /\ pending = 0 /\ fault = FALSE /\ result = "none"

ReadOk  == phase = "new" /\ phase' = "read_ok" /\ UNCHANGED <<sent, pending, fault, result>>
ReadErr == phase = "new" /\ phase' = "read_err" /\ fault' = TRUE /\ UNCHANGED <<sent, pending, result>>

Writable == phase \in {"read_ok", "read_err", "writing", "flushed"}
\* what a call must offer after a short write: the unaccepted rest first (more may follow it)
Resumes(offered, continues) == pending > 0 => (offered >= pending /\ continues)

\* a write call offering `offered` bytes of which the transport accepts `accepted`
Write(offered, accepted, continues) ==
    /\ Writable
    /\ offered > 0 /\ accepted <= offered
    /\ Resumes(offered, continues)
    /\ sent' = sent + accepted /\ pending' = offered - accepted
    /\ phase' = "writing"
    /\ fault' = (fault \/ accepted = 0)      \* Ok(0) for a non-empty buffer: the transport cannot take more (WriteZero)
    /\ UNCHANGED result

WriteErr(offered, continues) ==
    /\ Writable
    /\ Resumes(offered, continues)
    /\ fault' = TRUE /\ phase' = "writing"
    /\ pending' = offered /\ UNCHANGED <<sent, result>>

\* flush only when nothing is pending (flushing a half-sent response and stopping is the single-write bug)
\* (a second flush in a row is harmless and allowed)
FlushOk  == /\ phase \in {"writing", "flushed"} /\ (ImplSingleWrite \/ pending = 0) /\ phase' = "flushed"
            /\ UNCHANGED <<sent, pending, fault, result>>
FlushErr == /\ phase \in {"writing", "flushed"} /\ (ImplSingleWrite \/ pending = 0) /\ phase' = "flushed" /\ fault' = TRUE
            /\ UNCHANGED <<sent, pending, result>>

\* Ok only when everything offered went out and was flushed; Err is legitimate after a transport fault, or after an
\* error response has been delivered in full (Server::process reports parse errors to its caller after answering)
Return(r, errorStatus) ==
    /\ phase \in {"flushed", "writing"}
    /\ r \in {"ok", "err"}
    /\ (r = "ok" => phase = "flushed" /\ ~fault /\ sent > 0 /\ (ImplSingleWrite \/ pending = 0))
    /\ (r = "err" => fault \/ (phase = "flushed" /\ sent > 0 /\ (ImplSingleWrite \/ pending = 0) /\ errorStatus))
    /\ phase' = "returned" /\ result' = r
    /\ UNCHANGED <<sent, pending, fault>>

\* C04/C05 on the design: a connection whose transport never failed ends with the whole response delivered
DeliveredInFull == (phase = "returned" /\ ~fault) => (sent > 0 /\ pending = 0)
=============================================================================
