---------------------------- MODULE Trace_Server ----------------------------
(***************************************************************************)
(* Trace validation of the real rws binary against Server.tla.  Events are  *)
(* what a client (and, for C13, strace and the manifest walker) observes:   *)
(*   Start(n)                 a server with n workers was started           *)
(*   Conn(kind, answered, status)   one connection of the history, played   *)
(*                            to its end before the next one starts:        *)
(*                            Accept . Dispatch . Complete of Server        *)
(*   Hold(count)              count silent connections are opened and kept  *)
(*   Probe(answered, status)  one valid request while they are held         *)
(*   ReleaseAll               the silent connections are closed             *)
(*   Burst(sent, answered)    sent valid requests in flight together        *)
(*   Exit(alive)              is the server process still running           *)
(*   Phase / Serial(req, r) / Conc(req, r)      C08: responses alone vs     *)
(*                            under concurrency                             *)
(*   Manifest(entries) / Syscall(call, path, flags)   C13                   *)
(* The expectations are read off Server's state: a probe with fewer than N  *)
(* connections held must be answered because no worker may be lost; the     *)
(* file system and the environment are written by no action.                *)
(***************************************************************************)
EXTENDS Server, Bytes, Json, IOUtils, TLC

Rec == ndJsonDeserialize(IOEnv.TRACE)

VARIABLES l, nfail,
          serial,      \* C08: [request id -> response observed alone]
          manifest     \* C13: the manifest recorded at the first Manifest event (<<>> before)
tvars == <<svars, l, nfail, serial, manifest>>

TInit == SInit /\ l = 1 /\ nfail = 0 /\ serial = <<>> /\ manifest = <<>>
Ev == Rec[l]
Is(e) == l <= Len(Rec) /\ Ev.ev = e
Report(bad, extra) == PrintT(<<"FAIL", ToJson([i |-> l, props |-> bad, ev |-> Ev.ev] @@ extra)>>)
Judge(bad, extra) == IF bad = {} THEN nfail' = nfail ELSE Report(bad, extra) /\ nfail' = nfail + 1
Adv == l' = l + 1

IdleWorkers == {w \in alive : serving[w] = 0}

TStart == /\ Is("Start")
          /\ alive' = 1..N /\ serving' = [w \in 1..N |-> 0] /\ queue' = <<>>
          /\ kind' = [c \in 1..MaxConn |-> "valid"] /\ status' = [c \in 1..MaxConn |-> "none"]
          /\ nconn' = 0 /\ UNCHANGED <<env, fs>>
          /\ (IF Ev.n = N THEN nfail' = nfail ELSE Report({"TOOL.worker_count_mismatch"}, <<>>) /\ nfail' = nfail + 1)
          /\ Adv /\ UNCHANGED <<serial, manifest>>

\* one history connection played to its end: Accept(k) . Dispatch(w) . Complete(w) for an idle live worker w
ConnViolations ==
    LET k == Ev.kind IN
    (IF IdleWorkers = {} THEN {"TOOL.no_idle_worker_in_model"} ELSE {})
    \* same: the answer equals, byte for byte and the timestamp line aside, the one the fresh server gave to this request
    \cup (IF k = "valid" /\ ~(Ev.answered /\ Ev.status = 200 /\ Ev.same) THEN {"C06.valid_request_not_answered_correctly"} ELSE {})
    \cup (IF k \in {"bad", "internal"} /\ ~Ev.answered THEN {"C06.connection_not_answered"} ELSE {})
TConn == /\ Is("Conn") /\ nconn < MaxConn
         /\ Judge(ConnViolations, [kind |-> Ev.kind, flavour |-> Ev.flavour, status |-> Ev.status])
         /\ nconn' = nconn + 1
         /\ kind' = [kind EXCEPT ![nconn + 1] = Ev.kind]
         /\ status' = [status EXCEPT ![nconn + 1] = IF Ev.kind = "close" THEN "ended" ELSE "answered"]
         /\ UNCHANGED <<alive, serving, queue, env, fs>>
         /\ Adv /\ UNCHANGED <<serial, manifest>>

\* count silent connections: Accept("hold") . Dispatch for each (they stay "running")
RECURSIVE HoldK(_, _, _, _, _)
HoldK(k, srv, knd, st, nc) ==
    IF k = 0 THEN [serving |-> srv, kind |-> knd, status |-> st, nconn |-> nc]
    ELSE LET idle == {w \in alive : srv[w] = 0} IN
         IF idle = {} THEN [serving |-> srv, kind |-> knd, status |-> st, nconn |-> nc]
         ELSE LET w == CHOOSE x \in idle : TRUE  c == nc + 1 IN
              HoldK(k - 1, [srv EXCEPT ![w] = c], [knd EXCEPT ![c] = "hold"], [st EXCEPT ![c] = "running"], c)
THold == /\ Is("Hold") /\ nconn + Ev.count <= MaxConn
         /\ LET h == HoldK(Ev.count, serving, kind, status, nconn) IN
              serving' = h.serving /\ kind' = h.kind /\ status' = h.status /\ nconn' = h.nconn
         /\ UNCHANGED <<alive, queue, env, fs, nfail>>
         /\ Adv /\ UNCHANGED <<serial, manifest>>

\* a valid request while Held connections occupy workers: answered iff a live worker is idle
TProbe == /\ Is("Probe")
          /\ Judge(IF Cardinality(Held) < N /\ ~(Ev.answered /\ Ev.status = 200)
                   THEN {"C06.capacity_lost_probe_unanswered"} ELSE {}, [held |-> Cardinality(Held), n |-> N])
          /\ UNCHANGED svars /\ Adv /\ UNCHANGED <<serial, manifest>>

TReleaseAll == /\ Is("ReleaseAll")
               /\ serving' = [w \in 1..N |-> IF serving[w] \in Held THEN 0 ELSE serving[w]]
               /\ status' = [c \in 1..MaxConn |-> IF c \in Held THEN "ended" ELSE status[c]]
               /\ UNCHANGED <<alive, queue, kind, nconn, env, fs, nfail>>
               /\ Adv /\ UNCHANGED <<serial, manifest>>

TBurst == /\ Is("Burst")
          /\ Judge(IF Ev.sent <= N /\ Ev.answered # Ev.sent THEN {"C06.simultaneous_connections_not_all_answered"} ELSE {},
                   [sent |-> Ev.sent, answered |-> Ev.answered])
          /\ UNCHANGED svars /\ Adv /\ UNCHANGED <<serial, manifest>>

TExit == /\ Is("Exit")
         /\ Judge(IF Ev.alive THEN {} ELSE {"C04.server_process_exited"}, <<>>)
         /\ UNCHANGED svars /\ Adv /\ UNCHANGED <<serial, manifest>>

\* ---------------------------------------------------------------- C08
TPhase == /\ Is("Phase") /\ UNCHANGED svars /\ UNCHANGED <<nfail, serial, manifest>> /\ Adv

Volatile == {"date-unix-epoch-nanos"}
HdrPairs(r) == {<<r.hs[i].nl, r.hs[i].v>> : i \in {j \in 1..Len(r.hs) : r.hs[j].nl \notin Volatile}}
IsFormEcho(name) == name \in {"form_get", "form_get2", "form_post_long", "form_post_mid", "form_post_short", "upload"}
Lines(b) == {x \in {SplitOn(b, <<13, 10>>)[k] : k \in 1..Len(SplitOn(b, <<13, 10>>))} : x # <<>>}
SameResponse(name, a, b) ==
    /\ a.status = b.status /\ a.raw_len > 0 /\ b.raw_len > 0
    /\ HdrPairs(a) = HdrPairs(b)
    /\ a.body_len = b.body_len
    /\ IF IsFormEcho(name) THEN Lines(a.body) = Lines(b.body)        \* the order of echoed fields is unspecified
       ELSE a.body_hash = b.body_hash /\ a.body = b.body

TSerial == /\ Is("Serial")
           /\ serial' = (Ev.req :> Ev.r) @@ serial
           /\ UNCHANGED svars /\ UNCHANGED <<nfail, manifest>> /\ Adv
TConc == /\ Is("Conc")
         /\ Judge(IF Ev.req \in DOMAIN serial /\ SameResponse(Ev.name, serial[Ev.req], Ev.r) THEN {}
                  ELSE {"C08.response_differs_from_serial"},
                  [name |-> Ev.name, workers |-> Ev.workers, status |-> Ev.r.status, body_len |-> Ev.r.body_len])
         /\ UNCHANGED svars /\ UNCHANGED <<serial, manifest>> /\ Adv

\* ---------------------------------------------------------------- C13
MutatingCalls == {"unlink", "unlinkat", "rename", "renameat", "renameat2", "mkdir", "mkdirat", "rmdir", "symlink", "symlinkat",
                  "link", "linkat", "chmod", "fchmod", "fchmodat", "chown", "fchown", "lchown", "fchownat", "truncate", "ftruncate",
                  "utime", "utimes", "utimensat", "futimesat", "mknod", "mknodat", "creat", "setxattr", "removexattr", "fallocate"}
WriteFlags == {"O_WRONLY", "O_RDWR", "O_CREAT", "O_TRUNC", "O_APPEND", "O_TMPFILE"}
IsMutation(e) == e.call \in MutatingCalls
                 \/ (e.call \in {"open", "openat", "openat2"} /\ \E i \in 1..Len(e.flags) : e.flags[i] \in WriteFlags)
TSyscall == /\ Is("Syscall")
            /\ Judge(IF IsMutation(Ev) /\ ~Ev.benign THEN {"C13.mutating_system_call"} ELSE {}, [call |-> Ev.call, path |-> Ev.path, flags |-> Ev.flags])
            /\ UNCHANGED svars /\ UNCHANGED <<serial, manifest>> /\ Adv
TManifest == /\ Is("Manifest")
             /\ IF manifest = <<>> THEN manifest' = Ev.entries /\ nfail' = nfail
                ELSE manifest' = manifest /\ Judge(IF Ev.entries = manifest THEN {} ELSE {"C13.manifest_changed"},
                                                   [added |-> {Ev.entries[i] : i \in 1..Len(Ev.entries)} \ {manifest[i] : i \in 1..Len(manifest)},
                                                    removed |-> {manifest[i] : i \in 1..Len(manifest)} \ {Ev.entries[i] : i \in 1..Len(Ev.entries)}])
             /\ UNCHANGED svars /\ UNCHANGED serial /\ Adv
TRequest == /\ Is("Request") /\ UNCHANGED svars /\ UNCHANGED <<nfail, serial, manifest>> /\ Adv

TNext == TStart \/ TConn \/ THold \/ TProbe \/ TReleaseAll \/ TBurst \/ TExit \/ TPhase \/ TSerial \/ TConc
         \/ TSyscall \/ TManifest \/ TRequest
TSpec == TInit /\ [][TNext]_tvars

ServerSafety == NoWorkerLost /\ TypeOK
Done == (l = Len(Rec) + 1) => PrintT(<<"DONE", Len(Rec), nfail>>)
AllConsumed == TLCGet("stats").diameter = Len(Rec) + 1
=============================================================================
