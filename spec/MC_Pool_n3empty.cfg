SPECIFICATION SpecAllReleased
CONSTANTS
  N = 3
  T = 0
  Kind <- K_empty
  HoldLock = FALSE
  OneShot = FALSE
  Guarded = TRUE
  Spawned = 3
INVARIANT Safety
PROPERTIES EventuallyAllDone
CHECK_DEADLOCK FALSE
