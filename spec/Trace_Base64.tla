---------------------------- MODULE Trace_Base64 ----------------------------
(***************************************************************************)
(* Trace validation for C18: every recorded call of Base64::encode /        *)
(* Base64::decode on the real library is an event; an event is accepted iff *)
(* the observed result is one Codec_Base64 permits.  The trace spec is      *)
(* total: a rejected event is reported and the run continues.               *)
(***************************************************************************)
EXTENDS Codec_Base64, Json, IOUtils, TLC

Rec == ndJsonDeserialize(IOEnv.TRACE)

VARIABLES l, nfail

Obs(r) == [ok |-> r.outcome = "ok", err |-> r.outcome = "err", val |-> r.val]

Violations(r) ==
    CASE r.op = "enc" -> IF EncodePermitted(r.in, Obs(r)) THEN {} ELSE {"C18.encode"}
      [] r.op = "dec" -> IF DecodePermitted(r.in, Obs(r)) THEN {} ELSE
                            IF HasForeign(r.in) THEN {"C18.reject"} ELSE {"C18.decode"}
      [] r.op = "sweep" -> IF SweepPermitted([dir |-> r.dir, k |-> r.k, x |-> r.x, y |-> r.y, bad |-> r.bad,
                                              seen |-> {r.seen[i] : i \in 1..Len(r.seen)},
                                              lens |-> {r.lens[i] : i \in 1..Len(r.lens)}])
                           THEN {} ELSE {IF r.dir = "enc" THEN "C18.encode" ELSE "C18.decode"}
      [] OTHER        -> {"C18.unknown_event"}

Init == l = 1 /\ nfail = 0

Consume ==
    /\ l <= Len(Rec)
    /\ LET bad == Violations(Rec[l]) IN
         /\ IF bad = {} THEN TRUE ELSE PrintT(<<"FAIL", ToJson([i |-> l, props |-> bad])>>)
         /\ nfail' = nfail + (IF bad = {} THEN 0 ELSE 1)
    /\ l' = l + 1

Next == Consume
Spec == Init /\ [][Next]_<<l, nfail>>

Done == (l = Len(Rec) + 1) => PrintT(<<"DONE", Len(Rec), nfail>>)
AllConsumed == TLCGet("stats").diameter = Len(Rec) + 1
=============================================================================
