//! Wire-level domains: the real rws binary (built by bin/setup into /verif/target/rws) is started in a scratch
//! served directory with a chosen environment, config file and argv, and spoken to over loopback sockets.
//!   wire-history  (C06)  histories of connections, then capacity probes            -> Trace_Server
//!   wire-conc     (C08)  serial reference (fresh server per request) vs concurrent -> Trace_Server
//!   wire-fs       (C13)  upload-shaped request sequences under strace + manifests   -> Trace_Server
//!   wire-config   (C12)  start-up with env / rws.config.toml / argv, probes         -> Trace_Config
use crate::http::project;
use crate::util::*;
use rand::{Rng, SeedableRng};
use serde_json::{json, Value};
use std::io::{Read, Write};
use std::net::{Shutdown, SocketAddr, TcpListener, TcpStream};
use std::path::{Path, PathBuf};
use std::process::{Child, Command, Stdio};
use std::time::{Duration, Instant};

/// server stdout/stderr files go under <scratch>/logs: outside every served tree, removed with the scratch directory
pub fn set_logdir(scratch: &Path) {
    std::env::set_var("RWSV_LOGDIR", scratch.join("logs"));
}

/// A port nobody listens on, never handed out twice by this process (the kernel may return a port again as soon as the
/// probing listener is closed: two parallel launches given the same port made one server fail to bind while its harness
/// thread talked to the other one -- a false observation, met once in C12).
pub fn free_port() -> u16 {
    static HANDED_OUT: std::sync::Mutex<Vec<u16>> = std::sync::Mutex::new(Vec::new());
    loop {
        let l = TcpListener::bind("127.0.0.1:0").expect("bind");
        let p = l.local_addr().unwrap().port();
        let mut g = HANDED_OUT.lock().unwrap();
        if !g.contains(&p) {
            g.push(p);
            return p;
        }
    }
}

/// SIGKILL to every process of the group led by `pid` (the server, and strace when it wraps it)
fn kill_group(pid: u32) {
    let _ = Command::new("kill").args(["-KILL", "--", &format!("-{}", pid)]).stdout(Stdio::null()).stderr(Stdio::null()).status();
}

pub struct Srv {
    pub child: Child,
    pub addr: SocketAddr,
    pub stdout_path: PathBuf,
    pub stderr_path: PathBuf,
}

impl Srv {
    /// Start the binary in `dir`. `env` replaces every RWS_CONFIG_* variable (none inherited).
    /// `probe_addrs`: addresses that are tried until one accepts (the first that does is `addr`).
    pub fn start(bin: &str, dir: &Path, env: &[(String, String)], args: &[String], probe_addrs: &[SocketAddr], strace_out: Option<&Path>, tag: &str) -> Result<Srv, String> {
        let stdout_path = dir.join(format!(".rwsv-{}-stdout", tag));
        let stderr_path = dir.join(format!(".rwsv-{}-stderr", tag));
        // logs live OUTSIDE the served tree (sibling of dir) so that the manifest of the tree is not touched by the harness
        let logdir = match std::env::var("RWSV_LOGDIR") {
            Ok(d) => PathBuf::from(d),
            Err(_) => dir.parent().and_then(|p| p.parent()).unwrap_or(dir).join("logs"),
        };
        std::fs::create_dir_all(&logdir).ok();
        let stdout_path = logdir.join(stdout_path.file_name().unwrap());
        let stderr_path = logdir.join(stderr_path.file_name().unwrap());
        let mut cmd = match strace_out {
            Some(p) => {
                let mut c = Command::new("strace");
                c.args(["-f", "-qq", "-e", "trace=%file,%desc", "-o", p.to_str().unwrap(), bin]);
                c
            }
            None => Command::new(bin),
        };
        cmd.args(args).current_dir(dir);
        for (k, _) in std::env::vars() {
            if k.starts_with("RWS_CONFIG_") {
                cmd.env_remove(k);
            }
        }
        for (k, v) in env {
            cmd.env(k, v);
        }
        cmd.stdin(Stdio::null())
            .stdout(std::fs::File::create(&stdout_path).map_err(|e| e.to_string())?)
            .stderr(std::fs::File::create(&stderr_path).map_err(|e| e.to_string())?);
        // own process group: stop() ends the whole group (killing only strace leaves the traced server running)
        {
            use std::os::unix::process::CommandExt;
            cmd.process_group(0);
        }
        let mut child = cmd.spawn().map_err(|e| format!("spawn {}: {}", bin, e))?;
        let deadline = Instant::now() + Duration::from_secs(if strace_out.is_some() { 20 } else { 8 });
        loop {
            // when no address is given, the one the server announces ("Setting up http://ADDR...") is used: probing a
            // list of candidates could reach a different server started by a parallel case
            let announced: Vec<SocketAddr> = if probe_addrs.is_empty() {
                let so = std::fs::read_to_string(&stdout_path).unwrap_or_default();
                so.find("Setting up http://")
                    .and_then(|i| so[i + 18..].find("...").map(|j| so[i + 18..i + 18 + j].to_string()))
                    // the announced host may be a name ("localhost"): resolve it the way a client would
                    .and_then(|a| { use std::net::ToSocketAddrs; a.to_socket_addrs().ok().map(|it| it.collect::<Vec<SocketAddr>>()) })
                    .unwrap_or_default()
            } else {
                vec![]
            };
            for a in probe_addrs.iter().chain(announced.iter()) {
                if let Ok(s) = TcpStream::connect_timeout(a, Duration::from_millis(100)) {
                    // the probe connection occupies a worker until it is closed: close it at once
                    drop(s);
                    // somebody accepts on that address -- is it OUR server?  One that could not bind exits at once.
                    std::thread::sleep(Duration::from_millis(60));
                    if let Ok(Some(st)) = child.try_wait() {
                        return Err(format!("server exited during start-up although {} accepts connections (another process listens there): {:?}", a, st));
                    }
                    return Ok(Srv { child, addr: *a, stdout_path, stderr_path });
                }
            }
            if let Ok(Some(st)) = child.try_wait() {
                return Err(format!("server exited during start-up: {:?}", st));
            }
            if Instant::now() > deadline {
                kill_group(child.id());
                let _ = child.kill();
                let _ = child.wait();
                return Err("server did not accept connections on any expected address".to_string());
            }
            std::thread::sleep(Duration::from_millis(15));
        }
    }
    pub fn alive(&mut self) -> bool {
        matches!(self.child.try_wait(), Ok(None))
    }
    pub fn stop(mut self) {
        kill_group(self.child.id());
        let _ = self.child.kill();
        let _ = self.child.wait();
    }
    pub fn stdout(&self) -> String {
        std::fs::read_to_string(&self.stdout_path).unwrap_or_default()
    }
}

/// send `bytes`, then read until EOF or timeout; None if nothing at all came back
pub fn exchange(addr: SocketAddr, bytes: &[u8], timeout: Duration) -> Option<Vec<u8>> {
    let mut s = TcpStream::connect_timeout(&addr, Duration::from_secs(2)).ok()?;
    s.set_read_timeout(Some(timeout)).ok();
    s.set_write_timeout(Some(Duration::from_secs(5))).ok();
    if s.write_all(bytes).is_err() {
        // the server may answer and close before a large request is fully written: still read
    }
    let mut out = vec![];
    let mut buf = [0u8; 65536];
    let deadline = Instant::now() + timeout;
    loop {
        match s.read(&mut buf) {
            Ok(0) => break,
            Ok(n) => out.extend_from_slice(&buf[..n]),
            Err(_) => break,
        }
        if Instant::now() > deadline {
            break;
        }
    }
    if out.is_empty() {
        None
    } else {
        Some(out)
    }
}

fn set_linger0(s: &TcpStream) {
    use std::os::fd::AsRawFd;
    let l = libc::linger { l_onoff: 1, l_linger: 0 };
    unsafe {
        libc::setsockopt(s.as_raw_fd(), libc::SOL_SOCKET, libc::SO_LINGER, &l as *const _ as *const libc::c_void, std::mem::size_of::<libc::linger>() as u32);
    }
}

pub const VALID: &[u8] = b"GET /a.txt HTTP/1.1\r\nHost: localhost\r\n\r\n";

fn bad_request(i: usize) -> (String, Vec<u8>) {
    let v: Vec<(&str, Vec<u8>)> = vec![
        ("garbage", vec![0xff, 0xfe, 0x00, 0x0a, 0x0a]),
        ("no_path", b"GET x HTTP/1.1\r\n\r\n".to_vec()),
        ("bad_length", b"GET / HTTP/1.1\r\nContent-Length: a\r\n\r\n".to_vec()),
        ("many_lines", [b"GET / HTTP/1.1\r\n".to_vec(), b"a\n".repeat(4990)].concat()),
        ("bad_port", b"GET http://h:x/ HTTP/1.1\r\n\r\n".to_vec()),
        ("userinfo", b"GET /:@ HTTP/1.1\r\n\r\n".to_vec()),
        ("unknown_method", b"BREW / HTTP/1.1\r\n\r\n".to_vec()),
        ("non_utf8_form", [b"POST /form-url-encoded-enctype-post-method HTTP/1.1\r\nContent-Type: application/x-www-form-urlencoded\r\n\r\n".to_vec(), vec![0xff, 0xfe]].concat()),
        ("suffix_overflow", b"GET /a.txt HTTP/1.1\r\nRange: bytes=-99999\r\n\r\n".to_vec()),
        ("oversized", [b"GET /".to_vec(), b"a".repeat(20000), b" HTTP/1.1\r\n\r\n".to_vec()].concat()),
        ("empty_line_first", b"\r\n\r\n".to_vec()),
        ("dotdot", b"GET /../../etc/passwd HTTP/1.1\r\n\r\n".to_vec()),
        // requests with LONG bodies (what they leave behind in a worker must not reach the next request of that worker)
        ("long_form_post", [b"POST /form-url-encoded-enctype-post-method HTTP/1.1\r\nHost: localhost\r\nContent-Type: application/x-www-form-urlencoded\r\nContent-Length: 3006\r\n\r\nowner=".to_vec(), b"t".repeat(3000)].concat()),
        ("long_put", [b"PUT /a.txt HTTP/1.1\r\nHost: localhost\r\nContent-Length: 8000\r\n\r\n".to_vec(), b"&z=9".repeat(2000)].concat()),
    ];
    let (n, b) = &v[i % v.len()];
    (n.to_string(), b.clone())
}

/// The valid requests of a history: after ANY history each of them must be answered exactly as the fresh server answered it
/// (requests with a body included: what an earlier, longer request left behind must not leak into them).
fn valid_probes() -> Vec<(&'static str, Vec<u8>)> {
    let form = |body: &str| format!("POST /form-url-encoded-enctype-post-method HTTP/1.1\r\nHost: localhost\r\nContent-Type: application/x-www-form-urlencoded\r\nContent-Length: {}\r\n\r\n{}", body.len(), body).into_bytes();
    let multi = "--b1\r\nContent-Disposition: form-data; name=\"f\"\r\n\r\nvalue\r\n--b1--\r\n";
    vec![
        ("get_file", VALID.to_vec()),
        ("post_form", form("name=alice")),
        ("head_file", b"HEAD /a.txt HTTP/1.1\r\nHost: localhost\r\n\r\n".to_vec()),
        ("post_multipart", format!("POST /form-multipart-enctype-post-method HTTP/1.1\r\nHost: localhost\r\nContent-Type: multipart/form-data; boundary=b1\r\nContent-Length: {}\r\n\r\n{}", multi.len(), multi).into_bytes()),
        ("get_form", b"GET /form-get-method?k=v HTTP/1.1\r\nHost: localhost\r\n\r\n".to_vec()),
    ]
}

/// a response without its timestamp header line (mechanical)
fn without_timestamp(raw: &Option<Vec<u8>>) -> Vec<u8> {
    let r = match raw { Some(r) => r, None => return vec![] };
    let head_end = r.windows(4).position(|w| w == b"\r\n\r\n").unwrap_or(r.len());
    let mut out = vec![];
    for line in r[..head_end].split(|b| *b == b'\n') {
        if line.to_ascii_lowercase().starts_with(b"date-unix-epoch-nanos") {
            continue;
        }
        out.extend_from_slice(line);
        out.push(b'\n');
    }
    out.extend_from_slice(&r[head_end..]);
    out
}

fn status_of(raw: &Option<Vec<u8>>) -> u64 {
    match raw {
        Some(r) => project(r, "hi")["status"].as_u64().unwrap_or(0),
        None => 0,
    }
}

fn make_site(root: &Path) {
    crate::d_conn::make_site(root);
}

/// C06 on the wire
pub fn history(o: &Opts) -> i32 {
    let bin = o.req("bin").to_string();
    let scratch = PathBuf::from(o.req("scratch"));
    set_logdir(&scratch);
    let mut out = Out::create(o.req("out"));
    let root = scratch.join("tree").join("site");
    make_site(&root);
    // a file large enough that a download is still in progress when the client goes away
    const HUGE: usize = 6 * 1024 * 1024;
    std::fs::write(root.join("huge.bin"), vec![b'h'; HUGE]).unwrap();
    let huge_req: &[u8] = b"GET /huge.bin HTTP/1.1\r\nHost: localhost\r\n\r\n";
    let t = Duration::from_millis(o.num("timeout-ms", 3000));
    for (hi, h) in read_ndjson(o.req("cases")).iter().enumerate() {
        let n = h["n"].as_u64().unwrap() as usize;
        let port = free_port();
        // the address family is a dimension, too: "ip6" histories run against a server bound to the IPv6 loopback
        let ip6 = h["ip6"].as_bool().unwrap_or(false);
        let addr: SocketAddr = (if ip6 { format!("[::1]:{}", port) } else { format!("127.0.0.1:{}", port) }).parse().unwrap();
        let mut args = vec![format!("--port={}", port), format!("--thread-count={}", n)];
        if ip6 {
            args.push("--ip=::1".to_string());
        }
        let mut srv = match Srv::start(&bin, &root, &[], &args, &[addr], None, &format!("h{}", hi)) {
            Ok(s) => s,
            Err(e) => {
                eprintln!("start failed: {}", e);
                return 2;
            }
        };
        // how the fresh server answers each valid request (timestamp line aside)
        let probes = valid_probes();
        let reference: Vec<Vec<u8>> = probes.iter().map(|(_, b)| without_timestamp(&exchange(addr, b, t))).collect();
        out.emit(&json!({"ev":"Start","n":n,"history":h["hist"]}));
        // a server that leaves eight connections in a row unanswered has decided the verdict of this history: the rest of the
        // history and its probes are skipped (every further connection would only wait for its timeout)
        let mut unanswered_in_a_row = 0;
        let mut gave_up = false;
        for (i, k) in h["hist"].as_array().unwrap().iter().enumerate() {
            let kind = k.as_str().unwrap();
            let ev = match kind {
                "valid" => {
                    let k = (i + hi) % probes.len();
                    let r = exchange(addr, &probes[k].1, t);
                    json!({"ev":"Conn","kind":kind,"flavour":probes[k].0,"answered":r.is_some(),"status":status_of(&r),"same":without_timestamp(&r) == reference[k]})
                }
                "heavy" => {
                    // an extreme but satisfiable answer: 400 one-byte ranges of the 6 MiB file (length x count passes 2^31)
                    let bytes = format!("GET /huge.bin HTTP/1.1\r\nHost: localhost\r\nRange: bytes={}\r\n\r\n", ["0-0"; 400].join(",")).into_bytes();
                    let r = exchange(addr, &bytes, Duration::from_secs(30));
                    json!({"ev":"Conn","kind":"bad","flavour":"many_ranges_of_large_file","answered":r.is_some(),"status":status_of(&r),"same":true})
                }
                "bad" | "internal" => {
                    let (name, bytes) = bad_request(i + hi);
                    let r = exchange(addr, &bytes, t);
                    json!({"ev":"Conn","kind":kind,"flavour":name,"answered":r.is_some(),"status":status_of(&r),"same":true})
                }
                _ => {
                    // "close": early close, half-sent request, reset before / after sending
                    let flavour = ["early_close", "half_sent", "reset_before", "reset_after", "abort_download"][(i + hi) % 5];
                    if let Ok(mut s) = TcpStream::connect_timeout(&addr, Duration::from_secs(2)) {
                        match flavour {
                            "half_sent" => {
                                let _ = s.write_all(b"GET /a.txt HT");
                                std::thread::sleep(Duration::from_millis(5));
                            }
                            "reset_before" => set_linger0(&s),
                            "reset_after" => {
                                let _ = s.write_all(VALID);
                                set_linger0(&s);
                            }
                            "abort_download" => {
                                // ask for the large file, take the first 32 KiB, reset: the server's write fails mid-response
                                let _ = s.write_all(huge_req);
                                let _ = s.set_read_timeout(Some(Duration::from_secs(2)));
                                let mut got = 0usize;
                                let mut buf = [0u8; 8192];
                                while got < 32 * 1024 {
                                    match s.read(&mut buf) {
                                        Ok(0) | Err(_) => break,
                                        Ok(k) => got += k,
                                    }
                                }
                                set_linger0(&s);
                            }
                            _ => {}
                        }
                        drop(s);
                    }
                    json!({"ev":"Conn","kind":"close","flavour":flavour,"answered":false,"status":0,"same":true})
                }
            };
            if ev["kind"] != "close" {
                unanswered_in_a_row = if ev["answered"] == false { unanswered_in_a_row + 1 } else { 0 };
            }
            out.emit(&ev);
            if unanswered_in_a_row >= 8 {
                gave_up = true;
                break;
            }
        }
        if gave_up {
            out.emit(&json!({"ev":"Exit","alive":srv.alive()}));
            srv.stop();
            continue;
        }
        // probe 1: N-1 silent connections hold N-1 workers; one valid request must still be answered
        std::thread::sleep(Duration::from_millis(30));
        let mut held = vec![];
        for _ in 0..n.saturating_sub(1) {
            if let Ok(s) = TcpStream::connect_timeout(&addr, Duration::from_secs(2)) {
                held.push(s);
            }
        }
        std::thread::sleep(Duration::from_millis(60));
        out.emit(&json!({"ev":"Hold","count":held.len()}));
        let r = exchange(addr, VALID, t);
        out.emit(&json!({"ev":"Probe","answered":r.is_some(),"status":status_of(&r)}));
        for s in held.iter() {
            let _ = s.shutdown(Shutdown::Both);
        }
        drop(held);
        out.emit(&json!({"ev":"ReleaseAll"}));
        std::thread::sleep(Duration::from_millis(30));
        // probe 2: N valid requests in flight together (the server reads a connection once, so a request cannot be
        // held half-sent: N client threads leave a barrier together instead)
        let barrier = std::sync::Arc::new(std::sync::Barrier::new(n));
        let handles: Vec<_> = (0..n)
            .map(|_| {
                let b = barrier.clone();
                std::thread::spawn(move || {
                    b.wait();
                    status_of(&exchange(addr, VALID, t))
                })
            })
            .collect();
        let mut answered = 0;
        for h in handles {
            if h.join().unwrap_or(0) == 200 {
                answered += 1;
            }
        }
        out.emit(&json!({"ev":"Burst","sent":n,"answered":answered}));
        // probe 3: the large file, alone and then N downloads together, each complete (capacity for LARGE responses survives, too)
        let big_ok = |r: &Option<Vec<u8>>| -> bool { status_of(r) == 200 && r.as_ref().map(|b| b.len() > HUGE).unwrap_or(false) };
        let tb = Duration::from_secs(20);
        let r = exchange(addr, huge_req, tb);
        out.emit(&json!({"ev":"Conn","kind":"valid","flavour":"get_huge","answered":r.is_some(),"status":if big_ok(&r) { 200 } else { 0 },"same":true}));
        let barrier = std::sync::Arc::new(std::sync::Barrier::new(n));
        let handles: Vec<_> = (0..n)
            .map(|_| {
                let b = barrier.clone();
                let req = huge_req.to_vec();
                std::thread::spawn(move || {
                    b.wait();
                    let r = exchange(addr, &req, Duration::from_secs(30));
                    status_of(&r) == 200 && r.map(|x| x.len() > 6 * 1024 * 1024).unwrap_or(false)
                })
            })
            .collect();
        let answered = handles.into_iter().filter_map(|h| h.join().ok()).filter(|ok| *ok).count();
        out.emit(&json!({"ev":"Burst","sent":n,"answered":answered}));
        for (k, (name, bytes)) in probes.iter().enumerate() {
            for _ in 0..2 * n {
                let r = exchange(addr, bytes, t);
                out.emit(&json!({"ev":"Conn","kind":"valid","flavour":name,"answered":r.is_some(),"status":status_of(&r),"same":without_timestamp(&r) == reference[k]}));
            }
        }
        out.emit(&json!({"ev":"Exit","alive":srv.alive()}));
        srv.stop();
    }
    let n = out.n;
    out.finish();
    eprintln!("wire-history: {} events", n);
    0
}

// ----------------------------------------------------------------------------- C08

fn conc_requests() -> Vec<(String, Vec<u8>)> {
    let g = |t: &str| format!("GET {} HTTP/1.1\r\nHost: localhost\r\n\r\n", t).into_bytes();
    let form = |body: &str| format!("POST /form-url-encoded-enctype-post-method HTTP/1.1\r\nHost: localhost\r\nContent-Type: application/x-www-form-urlencoded\r\nContent-Length: {}\r\n\r\n{}", body.len(), body).into_bytes();
    let multi = |b: &str, name: &str, val: &str| format!("POST /form-multipart-enctype-post-method HTTP/1.1\r\nHost: localhost\r\nContent-Type: multipart/form-data; boundary={}\r\n\r\n--{}\r\nContent-Disposition: form-data; name=\"{}\"\r\n\r\n{}\r\n--{}--\r\n", b, b, name, val, b).into_bytes();
    vec![
        ("get_a".into(), g("/a.txt")),
        ("get_index".into(), g("/docs/")),
        ("get_deep".into(), g("/docs/deep/x.txt")),
        ("get_big".into(), g("/big.bin")),
        ("get_big2".into(), g("/big2.bin")),
        ("get_root".into(), g("/")),
        ("get_404".into(), g("/nx")),
        ("range_one".into(), b"GET /big.bin HTTP/1.1\r\nHost: localhost\r\nRange: bytes=100-4199\r\n\r\n".to_vec()),
        ("range_two".into(), b"GET /big2.bin HTTP/1.1\r\nHost: localhost\r\nRange: bytes=0-9, 50000-50099\r\n\r\n".to_vec()),
        ("range_416".into(), b"GET /a.txt HTTP/1.1\r\nHost: localhost\r\nRange: bytes=900-100\r\n\r\n".to_vec()),
        ("head_a".into(), b"HEAD /a.txt HTTP/1.1\r\nHost: localhost\r\n\r\n".to_vec()),
        ("options_a".into(), b"OPTIONS /a.txt HTTP/1.1\r\nHost: localhost\r\nOrigin: https://one.example\r\nAccess-Control-Request-Method: PUT\r\n\r\n".to_vec()),
        ("origin_b".into(), b"GET /a.txt HTTP/1.1\r\nHost: localhost\r\nOrigin: https://two.example\r\n\r\n".to_vec()),
        ("form_get".into(), g("/form-get-method?alpha=1&beta=two")),
        ("form_get2".into(), g("/form-get-method?gamma=3")),
        ("form_post_long".into(), form("user=alice&pin=SECRET-ALICE-1111&note=this+is+a+much+longer+body+than+the+others+so+that+stale+bytes+would+show")),
        ("form_post_mid".into(), form("user=bob&pin=SECRET-BOB-4242")),
        ("form_post_short".into(), form("q=1")),
        ("multi_a".into(), multi("bndA", "fieldA", "valueA-from-connection-A")),
        ("multi_b".into(), multi("bndB", "fB", "vB")),
        ("upload".into(), b"POST /file-upload/initiate?name=f.bin&lastModified=5&size=77 HTTP/1.1\r\nHost: localhost\r\n\r\n".to_vec()),
        ("garbage".into(), vec![0xff, 0xfe, 0x0a, 0x0a]),
        ("bad_length".into(), b"GET / HTTP/1.1\r\nContent-Length: a\r\n\r\n".to_vec()),
        ("put".into(), b"PUT /a.txt HTTP/1.1\r\nHost: localhost\r\nContent-Length: 5\r\n\r\nhello".to_vec()),
        // members of the mass directory (conc_site): asked again after thousands of other files have been served
        ("mass_txt".into(), g("/m/f00000.txt")),
        ("mass_css".into(), g("/m/f00001.css")),
        ("mass_js".into(), g("/m/f00002.js")),
        ("mass_html".into(), g("/m/f00003.html")),
        ("mass_late".into(), g("/m/f01039.json")),
        ("link_file".into(), g("/lnk.txt")),
        ("link_dir_index".into(), g("/ldocs/")),
        ("link_dir_file".into(), g("/ldocs/deep/x.txt")),
        ("link_up".into(), g("/docs/up.bin")),
        ("link_range".into(), b"GET /docs/up.bin HTTP/1.1\r\nHost: localhost\r\nRange: bytes=5-9\r\n\r\n".to_vec()),
    ]
}

fn conc_projection(raw: &Option<Vec<u8>>) -> Value {
    match raw {
        None => json!({"raw_len":0,"status":0,"hs":[],"body":[],"body_len":0,"body_hash":""}),
        Some(r) => {
            let mut p = project(r, "full");
            let body = bytes_of(&p["body"]);
            // large bodies travel as a hash (mechanical: FNV-1a 64 of the body bytes), small ones verbatim
            let mut h: u64 = 0xcbf29ce484222325;
            for b in body.iter() {
                h ^= *b as u64;
                h = h.wrapping_mul(0x100000001b3);
            }
            p["body_hash"] = json!(format!("{:016x}", h));
            if body.len() > 600 {
                p["body"] = json!([]);
            }
            // header bytes are not needed for the comparison
            if let Some(hs) = p["hs"].as_array_mut() {
                for h in hs.iter_mut() {
                    h.as_object_mut().unwrap().remove("nb");
                    h.as_object_mut().unwrap().remove("vb");
                }
            }
            p.as_object_mut().unwrap().remove("sl");
            p
        }
    }
}

fn conc_site(root: &Path) {
    make_site(root);
    let pat = |key: u64, len: u64| -> Vec<u8> { (0..len).map(|i| ((key + 131 * i + i / 251) % 256) as u8).collect() };
    std::fs::write(root.join("big.bin"), pat(11, 300_000)).unwrap();
    std::fs::write(root.join("big2.bin"), pat(13, 120_000)).unwrap();
    // a file far larger than what the kernel buffers for one connection: a client that leaves in the middle of it makes the
    // server's write fail (never among the compared requests; only the clients that abandon a transfer ask for it)
    std::fs::write(root.join("huge24.bin"), vec![b'H'; 24 << 20]).unwrap();
    // links (a server that resolves them through process-wide state, e.g. the working directory, disturbs its neighbours)
    std::os::unix::fs::symlink("a.txt", root.join("lnk.txt")).ok();
    std::os::unix::fs::symlink("docs", root.join("ldocs")).ok();
    std::os::unix::fs::symlink("../big2.bin", root.join("docs").join("up.bin")).ok();
    // a directory with thousands of small files of rotating types: whatever the server keeps per file name (a cache, a memo,
    // a table) reaches its capacity and starts recycling entries
    let m = root.join("m");
    std::fs::create_dir_all(&m).unwrap();
    for i in 0..MASS {
        let ext = MASS_EXT[i % MASS_EXT.len()];
        std::fs::write(m.join(format!("f{:05}.{}", i, ext)), format!("file {} of type {}\n", i, ext)).unwrap();
    }
}
const MASS: usize = 2600;
const MASS_EXT: [&str; 10] = ["txt", "css", "js", "html", "svg", "png", "xml", "pdf", "md", "json"];

/// a client that asks for the huge file, takes the first 32 KiB and resets the connection
fn abandon_transfer(addr: SocketAddr) {
    abandon_transfer_of(addr, "/huge24.bin")
}
fn abandon_transfer_of(addr: SocketAddr, target: &str) {
    if let Ok(mut s) = TcpStream::connect_timeout(&addr, Duration::from_secs(2)) {
        let _ = s.write_all(format!("GET {} HTTP/1.1\r\nHost: localhost\r\n\r\n", target).as_bytes());
        let _ = s.set_read_timeout(Some(Duration::from_secs(2)));
        let mut got = 0usize;
        let mut buf = [0u8; 8192];
        while got < 32 * 1024 {
            match s.read(&mut buf) {
                Ok(0) | Err(_) => break,
                Ok(k) => got += k,
            }
        }
        set_linger0(&s);
    }
}

/// C08 on the wire
pub fn conc(o: &Opts) -> i32 {
    let bin = o.req("bin").to_string();
    let scratch = PathBuf::from(o.req("scratch"));
    set_logdir(&scratch);
    let mut out = Out::create(o.req("out"));
    let root = scratch.join("tree").join("site");
    conc_site(&root);
    let t = Duration::from_millis(o.num("timeout-ms", 5000));
    let reqs = conc_requests();
    let seed = o.num("seed", 1);
    let mut rng = rand::rngs::StdRng::seed_from_u64(seed);
    // serial reference: every request alone, as the first and only request of a freshly started server
    out.emit(&json!({"ev":"Phase","phase":"serial"}));
    for (i, (name, bytes)) in reqs.iter().enumerate() {
        let port = free_port();
        let addr: SocketAddr = format!("127.0.0.1:{}", port).parse().unwrap();
        let srv = match Srv::start(&bin, &root, &[], &[format!("--port={}", port), "--thread-count=1".to_string()], &[addr], None, &format!("s{}", i)) {
            Ok(s) => s,
            Err(e) => {
                eprintln!("start failed: {}", e);
                return 2;
            }
        };
        let r = exchange(addr, bytes, t);
        out.emit(&json!({"ev":"Serial","req":i + 1,"name":name,"r":conc_projection(&r)}));
        srv.stop();
    }
    // concurrent phases
    let sizes: Vec<usize> = o.get("workers").unwrap_or("1,2,4,16").split(',').map(|x| x.parse().unwrap()).collect();
    let rounds = o.num("rounds", 6) as usize;
    let width = o.num("width", 16) as usize;
    for n in sizes {
        let port = free_port();
        let addr: SocketAddr = format!("127.0.0.1:{}", port).parse().unwrap();
        let srv = match Srv::start(&bin, &root, &[], &[format!("--port={}", port), format!("--thread-count={}", n)], &[addr], None, &format!("c{}", n)) {
            Ok(s) => s,
            Err(e) => {
                eprintln!("start failed: {}", e);
                return 2;
            }
        };
        out.emit(&json!({"ev":"Phase","phase":"concurrent","workers":n}));
        for round in 0..rounds {
            // a multiset of requests; long ones first in some rounds so that short ones follow on the same workers
            let mut picks: Vec<usize> = (0..width).map(|_| rng.gen_range(0..reqs.len())).collect();
            if round % 2 == 1 {
                picks.sort_by_key(|i| std::cmp::Reverse(reqs[*i].1.len()));
            }
            let barrier = std::sync::Arc::new(std::sync::Barrier::new(picks.len()));
            let mut handles = vec![];
            for (slot, &ri) in picks.iter().enumerate() {
                let bytes = reqs[ri].1.clone();
                let b = barrier.clone();
                let stagger = if round % 3 == 2 { slot as u64 * 3 } else { 0 };
                handles.push(std::thread::spawn(move || {
                    b.wait();
                    if stagger > 0 {
                        std::thread::sleep(Duration::from_millis(stagger));
                    }
                    (ri, exchange(addr, &bytes, t))
                }));
            }
            // clients that abandon a large transfer are part of any mix: in every second round as many of them as there are
            // workers leave the barrier together with the others (their own answers are not compared: they never read them)
            let mut leavers = vec![];
            if round % 2 == 0 {
                for _ in 0..n.min(4) {
                    leavers.push(std::thread::spawn(move || abandon_transfer(addr)));
                }
            }
            for h in handles {
                let (ri, r) = h.join().unwrap();
                out.emit(&json!({"ev":"Conc","req":ri + 1,"name":reqs[ri].0,"workers":n,"round":round,"r":conc_projection(&r)}));
            }
            for l in leavers {
                let _ = l.join();
            }
        }
        // after the mixes: every request twice per worker, one at a time (whatever an abandoned transfer left in a worker
        // shows in the next answer of that worker)
        for _ in 0..2 * n.min(8) {
            for (ri, (name, bytes)) in reqs.iter().enumerate().filter(|(i, _)| i % 4 == 0) {
                let r = exchange(addr, bytes, t);
                out.emit(&json!({"ev":"Conc","req":ri + 1,"name":name,"workers":n,"round":2000,"r":conc_projection(&r)}));
            }
        }
        srv.stop();
    }
    // history dependence without any overlap: one server, every file of the mass directory once, then the reference requests again
    {
        let port = free_port();
        let addr: SocketAddr = format!("127.0.0.1:{}", port).parse().unwrap();
        let srv = match Srv::start(&bin, &root, &[], &[format!("--port={}", port), "--thread-count=2".to_string()], &[addr], None, "hist") {
            Ok(s) => s,
            Err(e) => {
                eprintln!("start failed: {}", e);
                return 2;
            }
        };
        out.emit(&json!({"ev":"Phase","phase":"concurrent","workers":2}));
        for i in 0..MASS {
            let bytes = format!("GET /m/f{:05}.{} HTTP/1.1\r\nHost: localhost\r\n\r\n", i, MASS_EXT[i % MASS_EXT.len()]).into_bytes();
            let _ = exchange(addr, &bytes, t);
        }
        for (ri, (name, bytes)) in reqs.iter().enumerate() {
            let r = exchange(addr, bytes, t);
            out.emit(&json!({"ev":"Conc","req":ri + 1,"name":name,"workers":2,"round":1000,"r":conc_projection(&r)}));
        }
        srv.stop();
    }
    let n = out.n;
    out.finish();
    eprintln!("wire-conc: {} events", n);
    0
}

// ----------------------------------------------------------------------------- C13

fn fnv(bytes: &[u8]) -> String {
    let mut h: u64 = 0xcbf29ce484222325;
    for b in bytes {
        h ^= *b as u64;
        h = h.wrapping_mul(0x100000001b3);
    }
    format!("{:016x}", h)
}

/// full manifest of a tree: [relative path, kind, size, content hash, link target], sorted by path
pub fn manifest(top: &Path) -> Value {
    fn walk(dir: &Path, top: &Path, out: &mut Vec<Vec<String>>) {
        let mut entries: Vec<_> = match std::fs::read_dir(dir) {
            Ok(rd) => rd.filter_map(|e| e.ok()).collect(),
            Err(_) => return,
        };
        entries.sort_by_key(|e| e.file_name());
        for e in entries {
            let p = e.path();
            let rel = p.strip_prefix(top).unwrap().to_string_lossy().to_string();
            let md = match std::fs::symlink_metadata(&p) {
                Ok(m) => m,
                Err(_) => continue,
            };
            if md.file_type().is_symlink() {
                let t = std::fs::read_link(&p).map(|t| t.to_string_lossy().to_string()).unwrap_or_default();
                out.push(vec![rel, "link".into(), "0".into(), String::new(), t]);
            } else if md.is_dir() {
                out.push(vec![rel.clone(), "dir".into(), "0".into(), String::new(), String::new()]);
                walk(&p, top, out);
            } else {
                let bytes = std::fs::read(&p).unwrap_or_default();
                out.push(vec![rel, "file".into(), md.len().to_string(), fnv(&bytes), String::new()]);
            }
        }
    }
    let mut out = vec![];
    walk(top, top, &mut out);
    json!(out)
}

/// one strace line -> Syscall event (only calls that name a path and can change the file system are kept)
fn syscall_event(line: &str) -> Option<Value> {
    // "1234 openat(AT_FDCWD, "/path", O_RDONLY|O_CLOEXEC) = 3"
    let rest = line.splitn(2, ' ').nth(1)?.trim_start();
    let open = rest.find('(')?;
    let call = &rest[..open];
    const KEEP: &[&str] = &["open", "openat", "openat2", "creat", "unlink", "unlinkat", "rename", "renameat", "renameat2", "mkdir", "mkdirat", "rmdir",
        "symlink", "symlinkat", "link", "linkat", "chmod", "fchmod", "fchmodat", "chown", "fchown", "lchown", "fchownat", "truncate", "ftruncate",
        "utime", "utimes", "utimensat", "futimesat", "mknod", "mknodat", "setxattr", "removexattr", "fallocate"];
    if !KEEP.contains(&call) {
        return None;
    }
    let args = &rest[open + 1..];
    let path = match (args.find('"'), args[args.find('"').map(|i| i + 1).unwrap_or(0)..].find('"')) {
        (Some(a), Some(b)) => args[a + 1..a + 1 + b].to_string(),
        _ => String::new(),
    };
    // flags: the first argument made of O_* tokens
    let mut flags: Vec<String> = vec![];
    for a in args.split(", ") {
        let a = a.trim_end_matches(|c| c == ')' || c == ' ');
        let a = a.split(')').next().unwrap_or(a);
        if a.starts_with("O_") {
            flags = a.split('|').map(|x| x.to_string()).collect();
            break;
        }
    }
    // device nodes and kernel interfaces are not files the server could "modify"; /dev/shm and /dev/mqueue ARE storage
    let benign = ((path.starts_with("/dev/") && !path.starts_with("/dev/shm") && !path.starts_with("/dev/mqueue"))
        || path.starts_with("/proc/") || path.starts_with("/sys/"));
    Some(json!({"ev":"Syscall","call":call,"path":path,"flags":flags,"benign":benign}))
}

/// C13 on the wire: the C04 request documents plus upload-shaped ones against the real binary under strace
pub fn fs(o: &Opts) -> i32 {
    let bin = o.req("bin").to_string();
    let scratch = PathBuf::from(o.req("scratch"));
    set_logdir(&scratch);
    let mut out = Out::create(o.req("out"));
    let tree = scratch.join("tree");
    let root = tree.join("site");
    make_site(&root);
    std::fs::create_dir_all(tree.join("outside")).unwrap();
    std::fs::write(tree.join("outside/sentinel.txt"), b"do not touch").unwrap();
    std::fs::write(tree.join("above.txt"), b"above the root").unwrap();
    // large files: for transfers the client abandons, and for range lists whose length times the file size passes 2^31 / 2^32
    std::fs::write(root.join("huge24.bin"), vec![b'H'; 24 << 20]).unwrap();
    std::fs::write(root.join("big2m.bin"), vec![b'M'; 2_200_003]).unwrap();
    // a dangling link inside the root whose target would be created outside by a careless create-if-missing
    std::os::unix::fs::symlink("../outside/theme.css", root.join("theme-link.css")).ok();
    let strace_path = scratch.join("strace.out");
    let use_strace = o.get("no-strace").is_none();
    let port = free_port();
    let addr: SocketAddr = format!("127.0.0.1:{}", port).parse().unwrap();
    let n = o.num("workers", 8);
    let t = Duration::from_millis(o.num("timeout-ms", 4000));
    out.emit(&json!({"ev":"Manifest","when":"before","entries":manifest(&tree)}));
    let mut srv = match Srv::start(&bin, &root, &[], &[format!("--port={}", port), format!("--thread-count={}", n)], &[addr],
                                   if use_strace { Some(strace_path.as_path()) } else { None }, "fs") {
        Ok(s) => s,
        Err(e) => {
            eprintln!("start failed: {}", e);
            return 2;
        }
    };
    let cases = read_ndjson(o.req("cases"));
    let mut sent = 0;
    // the documents are sent by several client threads (the order between connections is irrelevant for C13)
    let docs: Vec<Vec<u8>> = cases.iter().map(|c| crate::d_conn::render_doc(&c["doc"])).collect();
    let docs = std::sync::Arc::new(docs);
    let next = std::sync::Arc::new(std::sync::atomic::AtomicUsize::new(0));
    let clients = o.num("clients", 8) as usize;
    let handles: Vec<_> = (0..clients)
        .map(|_| {
            let docs = docs.clone();
            let next = next.clone();
            std::thread::spawn(move || {
                let mut statuses = vec![];
                loop {
                    let i = next.fetch_add(1, std::sync::atomic::Ordering::SeqCst);
                    if i >= docs.len() {
                        break;
                    }
                    statuses.push((i, status_of(&exchange(addr, &docs[i], t))));
                }
                statuses
            })
        })
        .collect();
    let mut statuses: Vec<(usize, u64)> = handles.into_iter().flat_map(|h| h.join().unwrap_or_default()).collect();
    statuses.sort();
    for (i, st) in statuses.iter() {
        sent += 1;
        if *i < 5 || *i % 500 == 0 {
            out.emit(&json!({"ev":"Request","i":i,"seed":cases[*i]["seed"],"muts":cases[*i]["muts"],"status":st}));
        }
    }
    // sequences: the same target hit repeatedly and in alternation (a create-if-missing path fires once per tree)
    for target in ["/style.css", "/script.js", "/favicon.svg", "/", "/index.html", "/404.html", "/nx", "/theme-link.css", "/docs", "/docs/"] {
        for m in ["GET", "HEAD", "OPTIONS", "PUT", "DELETE", "POST"] {
            let bytes = format!("{} {} HTTP/1.1\r\nHost: localhost\r\nContent-Length: 3\r\n\r\nabc", m, target).into_bytes();
            let r = exchange(addr, &bytes, t);
            sent += 1;
            out.emit(&json!({"ev":"Request","i":sent,"seed":format!("{} {}", m, target),"muts":[],"status":status_of(&r)}));
        }
    }
    // the upload API used the way a client uses it: announce (name, size, lastModified), then send a multipart part whose
    // filename and length match the announcement -- for a new name, an existing name, a nested name, and with mismatches
    for (name, content, announce_size) in [
        ("upload.bin", "uploaded bytes", 14usize), ("notes.txt", "x", 1), ("a.txt", "replaced!", 9), ("docs/new.html", "<p>new</p>", 10),
        ("report.pdf", "0123456789abcdef", 16), ("mismatch.bin", "short", 99), ("empty.bin", "", 0),
        ("big-announced.bin", "tiny", 70000), ("huge-announced.iso", "tiny", 5000000000),
    ] {
        let init = format!("POST /file-upload/initiate?name={}&lastModified=1700000000000&size={} HTTP/1.1\r\nHost: localhost\r\n\r\n", name, announce_size);
        let r = exchange(addr, init.as_bytes(), t);
        sent += 1;
        out.emit(&json!({"ev":"Request","i":sent,"seed":format!("initiate {}", name),"muts":[],"status":status_of(&r)}));
        for _ in 0..2 {
            let body = format!("--b1\r\nContent-Disposition: form-data; name=\"file\"; filename=\"{}\"\r\nContent-Type: application/octet-stream\r\n\r\n{}\r\n--b1--\r\n", name, content);
            let up = format!("POST /form-multipart-enctype-post-method HTTP/1.1\r\nHost: localhost\r\nContent-Type: multipart/form-data; boundary=b1\r\nContent-Length: {}\r\n\r\n{}", body.len(), body);
            let r = exchange(addr, up.as_bytes(), t);
            sent += 1;
            out.emit(&json!({"ev":"Request","i":sent,"seed":format!("upload {}", name),"muts":[],"status":status_of(&r)}));
        }
        let get = format!("GET /{} HTTP/1.1\r\nHost: localhost\r\n\r\n", name);
        let r = exchange(addr, get.as_bytes(), t);
        sent += 1;
        out.emit(&json!({"ev":"Request","i":sent,"seed":format!("get {}", name),"muts":[],"status":status_of(&r)}));
    }
    // thresholds: the same few requests many times (a write that happens on the n-th hit, a log that rotates, a cache that spills)
    let many = o.num("repeat", 1200);
    for k in 0..many {
        let target = ["/a.txt", "/nx", "/", "/docs/", "/a.txt?v=2"][(k % 5) as usize];
        let bytes = format!("GET {} HTTP/1.1\r\nHost: localhost\r\n\r\n", target).into_bytes();
        let r = exchange(addr, &bytes, t);
        sent += 1;
        if k % 400 == 0 {
            out.emit(&json!({"ev":"Request","i":sent,"seed":format!("repeat GET {}", target),"muts":[],"status":status_of(&r)}));
        }
    }
    // failure paths: whatever the server does when a connection goes wrong AFTER the handler has produced its answer (a client
    // that abandons a large transfer, resets after sending, never reads) or when an answer is extreme (thousands of parts of a
    // large file) -- diagnostics written "only when something unusual happens" are writes, too
    for k in 0..6 {
        abandon_transfer_of(addr, "/huge24.bin");
        if let Ok(mut s) = TcpStream::connect_timeout(&addr, Duration::from_secs(2)) {
            let _ = s.write_all(VALID);
            set_linger0(&s);
        }
        let specs = ["0-0"; 2000][..if k % 2 == 0 { 1100 } else { 2000 }].join(",");
        let bytes = format!("GET /big2m.bin HTTP/1.1\r\nHost: localhost\r\nRange: bytes={}\r\n\r\n", specs).into_bytes();
        let r = exchange(addr, &bytes, Duration::from_secs(30));
        sent += 3;
        out.emit(&json!({"ev":"Request","i":sent,"seed":"failure paths: abandoned transfer, reset after sending, 1100 / 2000 ranges of a 2 MiB file","muts":[],"status":status_of(&r)}));
    }
    let alive = srv.alive();
    out.emit(&json!({"ev":"Exit","alive":alive}));
    srv.stop();
    std::thread::sleep(Duration::from_millis(100));
    out.emit(&json!({"ev":"Manifest","when":"after","entries":manifest(&tree)}));
    let mut nsys = 0;
    if use_strace {
        let text = std::fs::read_to_string(&strace_path).unwrap_or_default();
        // the server's own start-up (before it accepts) opens nothing for writing either; every line is judged
        for line in text.lines() {
            if let Some(ev) = syscall_event(line) {
                out.emit(&ev);
                nsys += 1;
            }
        }
    }
    let n = out.n;
    out.finish();
    eprintln!("wire-fs: {} requests, {} file-system calls, {} events", sent, nsys, n);
    0
}

// ----------------------------------------------------------------------------- C12

const SETTINGS: &[(&str, &str, &str, &str, &str)] = &[
    // setting, environment variable, long flag, short flag, toml key ([cors] table keys are prefixed "cors.")
    ("ip", "RWS_CONFIG_IP", "ip", "i", "ip"),
    ("port", "RWS_CONFIG_PORT", "port", "p", "port"),
    ("threads", "RWS_CONFIG_THREAD_COUNT", "thread-count", "t", "thread_count"),
    ("alloc", "RWS_CONFIG_REQUEST_ALLOCATION_SIZE_IN_BYTES", "request-allocation-size-in-bytes", "r", "request_allocation_size_in_bytes"),
    ("all", "RWS_CONFIG_CORS_ALLOW_ALL", "cors-allow-all", "a", "cors.allow_all"),
    ("origins", "RWS_CONFIG_CORS_ALLOW_ORIGINS", "cors-allow-origins", "o", "cors.allow_origins"),
    ("creds", "RWS_CONFIG_CORS_ALLOW_CREDENTIALS", "cors-allow-credentials", "c", "cors.allow_credentials"),
    ("headers", "RWS_CONFIG_CORS_ALLOW_HEADERS", "cors-allow-headers", "h", "cors.allow_headers"),
    ("methods", "RWS_CONFIG_CORS_ALLOW_METHODS", "cors-allow-methods", "m", "cors.allow_methods"),
    ("expose", "RWS_CONFIG_CORS_EXPOSE_HEADERS", "cors-expose-headers", "e", "cors.expose_headers"),
    ("maxage", "RWS_CONFIG_CORS_MAX_AGE", "cors-max-age", "g", "cors.max_age"),
];

fn as_map(v: &Value) -> Vec<(String, String)> {
    match v.as_object() {
        Some(o) => o.iter().map(|(k, v)| (k.clone(), v.as_str().unwrap_or("").to_string())).collect(),
        None => vec![], // TLC prints the empty function as []
    }
}

fn toml_value(setting: &str, value: &str, style: &str) -> String {
    let q = if style == "comments_quotes" { '\'' } else { '"' };
    match setting {
        "port" | "threads" | "alloc" => value.to_string(),
        "all" | "creds" => value.to_string(),
        "origins" | "headers" | "methods" | "expose" => {
            let items: Vec<String> = value.split(',').map(|x| format!("{}{}{}", q, x, q)).collect();
            format!("[{}]", items.join(", "))
        }
        _ => format!("{}{}{}", q, value, q),
    }
}

fn render_toml(file: &[(String, String)], form: &str, style: &str) -> String {
    let mut root: Vec<String> = vec![];
    let mut cors: Vec<String> = vec![];
    // "tight": still plain TOML, but nothing is separated by a blank: key=value#comment, [cors]#comment, an indented
    // full-line comment, a tab before a comment, CRLF line endings
    let eq = if style == "reordered_spaces" { "   =  " } else if style == "tight" { "=" } else { " = " };
    for (s, v) in file {
        let key = SETTINGS.iter().find(|x| x.0 == s).unwrap().4;
        let (is_cors, name) = match key.strip_prefix("cors.") {
            Some(n) => (true, n.to_string()),
            None => (false, key.to_string()),
        };
        let name = if form == "hyphen" { name.replace('_', "-") } else { name };
        let comment = if style == "comments_quotes" {
            format!(" # {} as documented", s)
        } else if style == "tight" {
            if root.len() % 2 == 0 { format!("# {} (see docs)", s) } else { format!("\t#{}", s) }
        } else {
            String::new()
        };
        let line = |k: &str| format!("{}{}{}{}", k, eq, toml_value(s, v, style), comment);
        if is_cors && form == "root" {
            root.push(line(&format!("cors_{}", name)));
        } else if is_cors {
            cors.push(line(&name));
        } else {
            root.push(line(&name));
        }
    }
    if style == "reordered_spaces" {
        root.reverse();
        cors.reverse();
    }
    let mut out = String::new();
    if style == "comments_quotes" {
        out.push_str("# rws configuration\n\n");
    }
    for l in root {
        out.push_str(&l);
        out.push('\n');
        if style == "comments_quotes" {
            out.push('\n');
        }
    }
    if style == "tight" {
        out = format!("   # generated, tight spelling\n{}", out);
    }
    if !cors.is_empty() {
        out.push_str(if style == "reordered_spaces" { "\n  [cors]  \n" } else if style == "tight" { "[cors]# cross-origin settings\n" } else { "\n[cors]\n" });
        for l in cors {
            out.push_str(&l);
            out.push('\n');
        }
    }
    if style == "tight" {
        out = out.replace('\n', "\r\n");
    }
    // "no_final_newline": the plain rendering without a line terminator after the last line (editors differ)
    if style == "no_final_newline" {
        while out.ends_with('\n') {
            out.pop();
        }
    }
    out
}

fn header_value(raw: &Option<Vec<u8>>, name_lower: &str) -> Option<String> {
    let r = raw.as_ref()?;
    let p = project(r, "hi");
    for h in p["hs"].as_array()? {
        if h["nl"] == name_lower {
            return Some(h["v"].as_str().unwrap_or("").to_string());
        }
    }
    None
}

fn one_launch(bin: &str, scratch: &Path, idx: usize, case: &Value) -> Value {
    let dir = scratch.join(format!("cfg{}", idx)).join("tree").join("site");
    make_site(&dir);
    // port tokens -> free ports; a filler port on the command line when the case is not about the port
    let mut ports = std::collections::HashMap::new();
    for t in ["P_env", "P_file", "P_cli"] {
        ports.insert(t.to_string(), free_port().to_string());
    }
    let subst = |m: Vec<(String, String)>| -> Vec<(String, String)> {
        m.into_iter().map(|(k, v)| { let v2 = ports.get(&v).cloned().unwrap_or(v); (k, v2) }).collect()
    };
    let env = subst(as_map(&case["env"]));
    let file = subst(as_map(&case["file"]));
    let mut cli = subst(as_map(&case["cli"]));
    let focus: Vec<String> = case["focus"].as_array().map(|a| a.iter().map(|x| x.as_str().unwrap().to_string()).collect()).unwrap_or_default();
    let port_supplied = env.iter().chain(file.iter()).chain(cli.iter()).any(|(k, _)| k == "port");
    if !focus.iter().any(|f| f == "port") && !port_supplied {
        cli.push(("port".to_string(), free_port().to_string()));
    }
    // render the three sources
    let env_vars: Vec<(String, String)> = env.iter().map(|(s, v)| (SETTINGS.iter().find(|x| x.0 == s).unwrap().1.to_string(), v.clone())).collect();
    if !file.is_empty() {
        std::fs::write(dir.join("rws.config.toml"), render_toml(&file, case["file_form"].as_str().unwrap_or("table"), case["style"].as_str().unwrap_or("plain"))).unwrap();
    }
    // cli_form: long | short | long_reversed | short_reversed (the order of the arguments must not matter)
    let form = case["cli_form"].as_str().unwrap_or("long");
    let short = form.starts_with("short");
    let mut args: Vec<String> = cli.iter().map(|(s, v)| {
        let row = SETTINGS.iter().find(|x| x.0 == s).unwrap();
        if short { format!("-{}={}", row.3, v) } else { format!("--{}={}", row.2, v) }
    }).collect();
    if form.ends_with("reversed") {
        args.reverse();
    }
    // candidate addresses
    let mut cand_ports: Vec<String> = env.iter().chain(file.iter()).chain(cli.iter()).filter(|(k, _)| k == "port").map(|(_, v)| v.clone()).collect();
    cand_ports.push("7878".to_string());
    let mut cand_ips: Vec<String> = vec!["127.0.0.1".into(), "127.0.0.2".into(), "127.0.0.3".into(), "127.0.0.4".into()];
    cand_ips.dedup();
    let mut addrs: Vec<SocketAddr> = vec![];
    for p in cand_ports.iter() {
        for ip in cand_ips.iter() {
            if let Ok(a) = format!("{}:{}", ip, p).parse() {
                addrs.push(a);
            }
        }
    }
    let given = json!({
        "env": env.iter().cloned().collect::<std::collections::BTreeMap<_, _>>(),
        "file": file.iter().cloned().collect::<std::collections::BTreeMap<_, _>>(),
        "cli": cli.iter().cloned().collect::<std::collections::BTreeMap<_, _>>(),
    });
    let na = "n/a";
    let mut obs = serde_json::Map::new();
    for s in SETTINGS {
        obs.insert(s.0.to_string(), json!(na));
    }
    let _ = addrs;
    let mut srv = match Srv::start(bin, &dir, &env_vars, &args, &[], None, &format!("cfg{}", idx)) {
        Ok(s) => s,
        Err(e) => {
            // Control: the same settings, merged cli over file over env, handed over on the command line only, in a
            // fresh directory without a config file.  If that starts, the environment is fine and the failure comes
            // from how the sources were read (a verdict on C12); if it does not, it is not a verdict (tool error).
            let cdir = scratch.join(format!("cfg{}", idx)).join("control").join("site");
            make_site(&cdir);
            let mut merged: std::collections::BTreeMap<String, String> = std::collections::BTreeMap::new();
            for (k, v) in env.iter().chain(file.iter()).chain(cli.iter()) {
                merged.insert(k.clone(), v.clone());
            }
            merged.insert("port".to_string(), free_port().to_string());
            let cargs: Vec<String> = merged.iter().map(|(s, v)| format!("--{}={}", SETTINGS.iter().find(|x| x.0 == s).unwrap().2, v)).collect();
            let control = match Srv::start(bin, &cdir, &[], &cargs, &[], None, &format!("cfg{}c", idx)) {
                Ok(mut c) => { let a = c.alive(); c.stop(); a }
                Err(_) => false,
            };
            return json!({"ev":"Launch","case":idx,"focus":focus,"given":given,"obs":obs,"started":false,"control_started":control,"error":e,
                          "rendered":{"env":env_vars,"argv":args,"toml":std::fs::read_to_string(dir.join("rws.config.toml")).unwrap_or_default()}});
        }
    };
    let addr = srv.addr;
    let t = Duration::from_secs(3);
    obs.insert("ip".into(), json!(addr.ip().to_string()));
    obs.insert("port".into(), json!(addr.port().to_string()));
    // thread count: the start-up line
    std::thread::sleep(Duration::from_millis(30));
    let so = srv.stdout();
    if let Some(i) = so.find("Spawned ") {
        let rest = &so[i + 8..];
        if let Some(j) = rest.find(' ') {
            obs.insert("threads".into(), json!(rest[..j].to_string()));
        }
    }
    // request buffer: echoed by the upload endpoint
    let r = exchange(addr, b"POST /file-upload/initiate?name=a&lastModified=1&size=1 HTTP/1.1\r\nHost: localhost\r\n\r\n", t);
    if let Some(raw) = &r {
        let text = String::from_utf8_lossy(raw).to_string();
        if let Some(i) = text.find("request_allocation_size_in_bytes is ") {
            let rest = &text[i + 36..];
            let num: String = rest.chars().take_while(|c| c.is_ascii_digit()).collect();
            obs.insert("alloc".into(), json!(num));
        }
    }
    // the allow-all switch: an Origin no source lists is granted only in allow-all mode
    let r = exchange(addr, b"GET /a.txt HTTP/1.1\r\nHost: localhost\r\nOrigin: https://unlisted.example\r\n\r\n", t);
    let all = header_value(&r, "access-control-allow-origin").is_some();
    if r.is_some() {
        obs.insert("all".into(), json!(all.to_string()));
    }
    if r.is_some() && !all {
        // which configured origin is granted, and with which preflight grants
        let mut granted: Vec<(String, Option<Vec<u8>>)> = vec![];
        for o in ["https://env.example", "https://file.example", "https://cli.example"] {
            let req = format!("OPTIONS /a.txt HTTP/1.1\r\nHost: localhost\r\nOrigin: {}\r\nAccess-Control-Request-Method: PUT\r\n\r\n", o);
            let r = exchange(addr, req.as_bytes(), t);
            if header_value(&r, "access-control-allow-origin").is_some() {
                granted.push((o.to_string(), r));
            }
        }
        let names: Vec<String> = granted.iter().map(|g| g.0.clone()).collect();
        obs.insert("origins".into(), json!(names.join(",")));
        if let Some((_, r)) = granted.first() {
            obs.insert("creds".into(), json!(header_value(r, "access-control-allow-credentials").unwrap_or_default()));
            obs.insert("methods".into(), json!(header_value(r, "access-control-allow-methods").unwrap_or_default()));
            obs.insert("headers".into(), json!(header_value(r, "access-control-allow-headers").unwrap_or_default()));
            obs.insert("expose".into(), json!(header_value(r, "access-control-expose-headers").unwrap_or_default()));
            obs.insert("maxage".into(), json!(header_value(r, "access-control-max-age").unwrap_or_default()));
        }
    }
    let alive = srv.alive();
    srv.stop();
    json!({"ev":"Launch","case":idx,"focus":focus,"given":given,"obs":obs,"started":alive,
           "rendered":{"env":env_vars,"argv":args,"toml":std::fs::read_to_string(dir.join("rws.config.toml")).unwrap_or_default()}})
}

/// C12 on the wire
pub fn config(o: &Opts) -> i32 {
    let bin = o.req("bin").to_string();
    let scratch = PathBuf::from(o.req("scratch"));
    set_logdir(&scratch);
    let mut out = Out::create(o.req("out"));
    let cases = std::sync::Arc::new(read_ndjson(o.req("cases")));
    let next = std::sync::Arc::new(std::sync::atomic::AtomicUsize::new(0));
    let par = o.num("parallel", 8) as usize;
    let handles: Vec<_> = (0..par)
        .map(|_| {
            let cases = cases.clone();
            let next = next.clone();
            let bin = bin.clone();
            let scratch = scratch.clone();
            std::thread::spawn(move || {
                let mut evs = vec![];
                loop {
                    let i = next.fetch_add(1, std::sync::atomic::Ordering::SeqCst);
                    if i >= cases.len() {
                        break;
                    }
                    // cases that rely on the default port 7878 cannot run side by side with each other
                    evs.push((i, one_launch(&bin, &scratch, i, &cases[i])));
                }
                evs
            })
        })
        .collect();
    let mut evs: Vec<(usize, Value)> = handles.into_iter().flat_map(|h| h.join().unwrap_or_default()).collect();
    evs.sort_by_key(|e| e.0);
    // retry the launches that failed to start (port 7878 busy because two default-port cases overlapped), sequentially
    for (i, e) in evs.iter_mut() {
        if e["started"] == false {
            *e = one_launch(&bin, &scratch, *i + 100000, &cases[*i]);
        }
    }
    for (_, e) in evs.iter() {
        out.emit(e);
    }
    let n = out.n;
    out.finish();
    eprintln!("wire-config: {} launches", n);
    0
}
