//! C11: run every (configuration, request) case through the production entry point with the policy set the way
//! the server reads it at request time (RWS_CONFIG_CORS_* in the process environment).
//! Events for Trace_Cors: Config(cfg) / Req(q, r).
use crate::http::*;
use crate::util::*;
use serde_json::{json, Value};
use std::collections::BTreeMap;

pub fn cfg_event(cfg: &Value) -> Value {
    let mut c = cfg.clone();
    c["headers_b"] = ints(cfg["headers"].as_str().unwrap_or("").as_bytes());
    json!({"ev":"Config","cfg":c})
}

pub fn cors_env(cfg: &Value) -> Vec<(String, String)> {
    let origins: Vec<&str> = cfg["origins"].as_array().map(|a| a.iter().map(|x| x.as_str().unwrap_or("")).collect()).unwrap_or_default();
    // creds_as: how a switched-off credentials setting is expressed: the literal "false", the empty string, or not at all
    // (the variable is left out: the server then runs with its default)
    let mut v: Vec<(String, String)> = vec![
        ("RWS_CONFIG_CORS_ALLOW_ALL".into(), cfg["all"].as_bool().unwrap_or(true).to_string()),
        ("RWS_CONFIG_CORS_ALLOW_ORIGINS".into(), origins.join(",")),
    ];
    let creds = cfg["creds"].as_bool().unwrap_or(false);
    match (creds, cfg["creds_as"].as_str().unwrap_or("literal")) {
        (false, "unset") => {}
        (false, "empty") => v.push(("RWS_CONFIG_CORS_ALLOW_CREDENTIALS".into(), String::new())),
        _ => v.push(("RWS_CONFIG_CORS_ALLOW_CREDENTIALS".into(), creds.to_string())),
    }
    v.extend(vec![
        ("RWS_CONFIG_CORS_ALLOW_METHODS".into(), cfg["methods"].as_str().unwrap_or("").to_string()),
        ("RWS_CONFIG_CORS_ALLOW_HEADERS".into(), cfg["headers"].as_str().unwrap_or("").to_string()),
        ("RWS_CONFIG_CORS_EXPOSE_HEADERS".into(), cfg["expose"].as_str().unwrap_or("").to_string()),
        ("RWS_CONFIG_CORS_MAX_AGE".into(), cfg["maxage"].as_str().unwrap_or("").to_string()),
    ]);
    v
}

pub fn cors_request_bytes(q: &Value) -> Vec<u8> {
    let mut s = format!("{} /a.txt HTTP/1.1\r\nHost: localhost\r\n", q["method"].as_str().unwrap_or("GET"));
    if q["has_origin"].as_bool().unwrap_or(false) {
        s.push_str(&format!("Origin: {}\r\n", q["origin"].as_str().unwrap_or("")));
    }
    if q["preflight"].as_bool().unwrap_or(false) {
        s.push_str("Access-Control-Request-Method: DELETE\r\nAccess-Control-Request-Headers: X-Requested, Content-Type\r\n");
    }
    s.push_str("\r\n");
    s.into_bytes()
}

pub fn run(o: &Opts) -> i32 {
    let mut out = Out::create(o.req("out"));
    let scratch = o.req("scratch").to_string();
    let root = format!("{}/site", scratch);
    crate::d_conn::make_site(std::path::Path::new(&root));
    let mut groups: BTreeMap<String, (Value, Vec<Value>)> = BTreeMap::new();
    for c in read_ndjson(o.req("cases")) {
        let key = c["cfg"].to_string();
        groups.entry(key).or_insert_with(|| (c["cfg"].clone(), vec![])).1.push(c);
    }
    rws::entry_point::set_default_values();
    std::env::set_current_dir(&root).expect("chdir");
    if let Some(bin) = o.get("bin") {
        // wire surface: one real server per configuration, started with the policy in its environment
        crate::d_wire::set_logdir(std::path::Path::new(&scratch));
        for (gi, (_k, (cfg, cases))) in groups.iter().enumerate() {
            let port = crate::d_wire::free_port();
            let addr: std::net::SocketAddr = format!("127.0.0.1:{}", port).parse().unwrap();
            let srv = match crate::d_wire::Srv::start(bin, std::path::Path::new(&root), &cors_env(cfg), &[format!("--port={}", port), "--thread-count=4".to_string()], &[addr], None, &format!("cors{}", gi)) {
                Ok(s) => s,
                Err(e) => {
                    eprintln!("start failed: {}", e);
                    return 2;
                }
            };
            out.emit(&cfg_event(cfg));
            for c in cases {
                let raw = crate::d_wire::exchange(addr, &cors_request_bytes(c), std::time::Duration::from_secs(5)).unwrap_or_default();
                let mut r = project(&raw, "head");
                r["outcome"] = json!(if raw.is_empty() { "no_response" } else { "ok" });
                let q = json!({"method": c["method"], "has_origin": c["has_origin"], "origin": c["origin"], "preflight": c["preflight"]});
                out.emit(&json!({"ev":"Req","q":q,"r":r,"surface":"wire"}));
            }
            srv.stop();
        }
        let n = out.n;
        out.finish();
        eprintln!("cors (wire): {} events", n);
        return 0;
    }
    let res = on_named_thread("0", 8 << 20, move || {
        for (_k, (cfg, cases)) in groups.iter() {
            // as at start-up: nothing configured, the defaults, then what this configuration supplies
            for (k, _) in std::env::vars().filter(|(k, _)| k.starts_with("RWS_CONFIG_CORS_")).collect::<Vec<_>>() {
                std::env::remove_var(k);
            }
            rws::entry_point::set_default_values();
            for (k, v) in cors_env(cfg) {
                std::env::set_var(k, v);
            }
            out.emit(&cfg_event(cfg));
            for c in cases {
                let (mock, wire) = Mock::new(cors_request_bytes(c));
                let ran = run_prod(mock, wire, 10000);
                let mut r = project(&ran.raw, "head");
                r["outcome"] = json!(ran.outcome);
                let q = json!({"method": c["method"], "has_origin": c["has_origin"], "origin": c["origin"], "preflight": c["preflight"]});
                out.emit(&json!({"ev":"Req","q":q,"r":r}));
            }
        }
        let n = out.n;
        out.finish();
        eprintln!("cors: {} events", n);
        0
    });
    res.unwrap_or(2)
}
