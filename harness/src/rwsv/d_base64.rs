//! C18: drive Base64::encode / Base64::decode.
//! replay: every case {"in":[bytes]} from TLC -> enc event, then a dec event on the text the
//!         library produced (when it produced one).
//! record: seeded random inputs of every length residue, and every single-character corruption
//!         of valid texts -> dec events.
use crate::util::*;
use rand::{Rng, SeedableRng};
use rws::core::base64::Base64;
use serde_json::{json, Value};

fn enc_event(input: &[u8]) -> (Value, Option<String>) {
    let inp = input.to_vec();
    match guarded(move || Base64::encode(&inp)) {
        Outcome::Done(Ok(text)) => (
            json!({"op":"enc","in":ints(input),"outcome":"ok","val":ints(text.as_bytes())}),
            Some(text),
        ),
        Outcome::Done(Err(e)) => (
            json!({"op":"enc","in":ints(input),"outcome":"err","val":[],"msg":e}),
            None,
        ),
        Outcome::Panic { msg, loc } => (
            json!({"op":"enc","in":ints(input),"outcome":"panic","val":[],"msg":msg,"loc":short_loc(&loc)}),
            None,
        ),
    }
}

fn dec_event(text: &[u8]) -> Value {
    // the decoder takes a String; non-UTF-8 corruptions are not expressible through its API
    let s = match String::from_utf8(text.to_vec()) {
        Ok(s) => s,
        Err(_) => return Value::Null,
    };
    match guarded(move || Base64::decode(s)) {
        Outcome::Done(Ok(bytes)) => json!({"op":"dec","in":ints(text),"outcome":"ok","val":ints(&bytes)}),
        Outcome::Done(Err(e)) => json!({"op":"dec","in":ints(text),"outcome":"err","val":[],"msg":e}),
        Outcome::Panic { msg, loc } => {
            json!({"op":"dec","in":ints(text),"outcome":"panic","val":[],"msg":msg,"loc":short_loc(&loc)})
        }
    }
}

pub fn run(o: &Opts) -> i32 {
    let mut out = Out::create(o.req("out"));
    if let Some(cases) = o.get("cases") {
        for c in read_ndjson(cases) {
            if !c["txt"].is_null() {
                let ev = dec_event(&bytes_of(&c["txt"]));
                if !ev.is_null() {
                    out.emit(&ev);
                }
                continue;
            }
            let input = bytes_of(&c["in"]);
            let (ev, text) = enc_event(&input);
            out.emit(&ev);
            if let Some(t) = text {
                out.emit(&dec_event(t.as_bytes()));
            }
        }
    }
    let seed = o.num("seed", 1);
    let mut rng = rand::rngs::StdRng::seed_from_u64(seed);
    // random inputs, every length residue mod 3
    let nrand = o.num("random", 0);
    let maxlen = o.num("maxlen", 300) as usize;
    for i in 0..nrand {
        let len = if maxlen < 3 { maxlen } else { (rng.gen_range(0..=maxlen) / 3) * 3 + (i as usize % 3) };
        let input: Vec<u8> = (0..len).map(|_| rng.gen()).collect();
        let (ev, text) = enc_event(&input);
        out.emit(&ev);
        if let Some(t) = text {
            out.emit(&dec_event(t.as_bytes()));
        }
    }
    // single-character corruptions of valid texts
    let ncorr = o.num("corrupt", 0);
    for _ in 0..ncorr {
        let len = rng.gen_range(1..=24usize);
        let input: Vec<u8> = (0..len).map(|_| rng.gen()).collect();
        let (_, text) = enc_event(&input);
        if let Some(t) = text {
            let tb = t.as_bytes();
            for pos in 0..tb.len() {
                // random replacement characters at this position: one ASCII, one from Latin-1/BMP, one astral
                let reps: [char; 3] = [
                    rng.gen_range(0..128u8) as char,
                    char::from_u32(rng.gen_range(0x80..0xD800u32)).unwrap_or('\u{100}'),
                    char::from_u32(rng.gen_range(0x10000..0x10FFFFu32)).unwrap_or('\u{10000}'),
                ];
                for repl in reps {
                    if repl as u32 == tb[pos] as u32 {
                        continue;
                    }
                    let mut m = tb[..pos].to_vec();
                    let mut buf = [0u8; 4];
                    m.extend_from_slice(repl.encode_utf8(&mut buf).as_bytes());
                    m.extend_from_slice(&tb[pos + 1..]);
                    let ev = dec_event(&m);
                    if !ev.is_null() {
                        out.emit(&ev);
                    }
                }
            }
        }
    }
    let n = out.n;
    out.finish();
    eprintln!("base64: {} events", n);
    0
}
