//! C18: drive Base64::encode / Base64::decode.
//! replay: every case {"in":[bytes]} from TLC -> enc event, then a dec event on the text the
//!         library produced (when it produced one).
//! record: seeded random inputs of every length residue, and every single-character corruption
//!         of valid texts -> dec events.
use crate::util::*;
use rand::{Rng, SeedableRng};
use rws::core::base64::Base64;
use serde_json::{json, Value};

fn enc_event(input: &[u8]) -> (Value, Option<String>) {
    let inp = input.to_vec();
    match guarded(move || Base64::encode(&inp)) {
        Outcome::Done(Ok(text)) => (
            json!({"op":"enc","in":ints(input),"outcome":"ok","val":ints(text.as_bytes())}),
            Some(text),
        ),
        Outcome::Done(Err(e)) => (
            json!({"op":"enc","in":ints(input),"outcome":"err","val":[],"msg":e}),
            None,
        ),
        Outcome::Panic { msg, loc } => (
            json!({"op":"enc","in":ints(input),"outcome":"panic","val":[],"msg":msg,"loc":short_loc(&loc)}),
            None,
        ),
    }
}

fn dec_event(text: &[u8]) -> Value {
    // the decoder takes a String; non-UTF-8 corruptions are not expressible through its API
    let s = match String::from_utf8(text.to_vec()) {
        Ok(s) => s,
        Err(_) => return Value::Null,
    };
    match guarded(move || Base64::decode(s)) {
        Outcome::Done(Ok(bytes)) => json!({"op":"dec","in":ints(text),"outcome":"ok","val":ints(&bytes)}),
        Outcome::Done(Err(e)) => json!({"op":"dec","in":ints(text),"outcome":"err","val":[],"msg":e}),
        Outcome::Panic { msg, loc } => {
            json!({"op":"dec","in":ints(text),"outcome":"panic","val":[],"msg":msg,"loc":short_loc(&loc)})
        }
    }
}

/// One cell of a functional-dependency table of the sweep: everything seen under one key.
#[derive(Clone, Default)]
struct Cell {
    seen: [u64; 4], // bitset of values seen at the position
    lens: u16,      // bitset of result lengths (bit 15: longer than 14)
    bad: u32,       // calls that returned an error or panicked
}
impl Cell {
    fn see(&mut self, v: u8, len: usize) {
        self.seen[(v >> 6) as usize] |= 1u64 << (v & 63);
        self.lens |= 1u16 << len.min(15);
    }
    fn merge(&mut self, o: &Cell) {
        for i in 0..4 {
            self.seen[i] |= o.seen[i];
        }
        self.lens |= o.lens;
        self.bad += o.bad;
    }
    fn seen_list(&self) -> Vec<u32> {
        (0..256u32).filter(|v| self.seen[(v >> 6) as usize] >> (v & 63) & 1 == 1).collect()
    }
    fn lens_list(&self) -> Vec<u32> {
        (0..16u32).filter(|l| self.lens >> l & 1 == 1).collect()
    }
}

const ALPHABET: &[u8; 64] = b"ABCDEFGHIJKLMNOPQRSTUVWXYZabcdefghijklmnopqrstuvwxyz0123456789+/";

/// Exhaustive sweep: every three-byte group through Base64::encode and every four-character group over
/// the alphabet through Base64::decode (2 x 16 777 216 calls of the real library).  Recorded per key
/// (two neighbouring coordinates) is the set of values seen at one output position; the judgement
/// (each set is the singleton RFC 4648 prescribes) is Codec_Base64!SweepPermitted, made by TLC.
/// `firsts` restricts the first coordinate (quick tier); the other coordinates always run in full.
fn sweep(out: &mut Out, firsts: usize, threads: usize) {
    let step = 256usize / firsts.max(1).min(256);
    let enc_firsts: Vec<usize> = (0..256).step_by(step.max(1)).collect();
    let step64 = (64usize * firsts.max(1).min(256) / 256).max(1);
    let dec_firsts: Vec<usize> = (0..64).step_by((64 / step64).max(1)).collect();
    for dir in ["enc", "dec"] {
        let firsts: Vec<usize> = if dir == "enc" { enc_firsts.clone() } else { dec_firsts.clone() };
        let n = if dir == "enc" { 256usize } else { 64 };
        let npos = if dir == "enc" { 4 } else { 3 };
        // work items are (first, second) coordinate pairs, dealt round-robin to the threads
        let pairs: Vec<(usize, usize)> = firsts.iter().flat_map(|&a| (0..n).map(move |b| (a, b))).collect();
        let chunks: Vec<Vec<(usize, usize)>> = (0..threads).map(|t| pairs.iter().cloned().skip(t).step_by(threads).collect()).collect();
        let handles: Vec<_> = chunks
            .into_iter()
            .map(|mine| {
                let dir = dir.to_string();
                std::thread::spawn(move || {
                    // tables[k]: n*n cells keyed by the two coordinates position k depends on
                    let mut tables: Vec<Vec<Cell>> = (0..npos).map(|_| vec![Cell::default(); n * n]).collect();
                    for &(a, b) in &mine {
                        {
                            for c in 0..n {
                                if dir == "enc" {
                                    let input = [a as u8, b as u8, c as u8];
                                    let keys = [a * n, a * n + b, b * n + c, c];
                                    match guarded(move || Base64::encode(&input)) {
                                        Outcome::Done(Ok(text)) => {
                                            let t = text.as_bytes();
                                            for k in 0..4 {
                                                let v = if k < t.len() { t[k] } else { 0 };
                                                tables[k][keys[k]].see(v, t.len());
                                            }
                                        }
                                        _ => {
                                            for k in 0..4 {
                                                tables[k][keys[k]].bad += 1;
                                            }
                                        }
                                    }
                                } else {
                                    for d in 0..n {
                                        let text = String::from_utf8(vec![ALPHABET[a], ALPHABET[b], ALPHABET[c], ALPHABET[d]]).unwrap();
                                        let keys = [a * n + b, b * n + c, c * n + d];
                                        match guarded(move || Base64::decode(text)) {
                                            Outcome::Done(Ok(bytes)) => {
                                                for k in 0..3 {
                                                    let v = if k < bytes.len() { bytes[k] } else { 0 };
                                                    tables[k][keys[k]].see(v, bytes.len());
                                                }
                                            }
                                            _ => {
                                                for k in 0..3 {
                                                    tables[k][keys[k]].bad += 1;
                                                }
                                            }
                                        }
                                    }
                                }
                            }
                        }
                    }
                    tables
                })
            })
            .collect();
        let mut tables: Vec<Vec<Cell>> = (0..npos).map(|_| vec![Cell::default(); n * n]).collect();
        for h in handles {
            let part = h.join().expect("sweep thread");
            for k in 0..npos {
                for i in 0..n * n {
                    tables[k][i].merge(&part[k][i]);
                }
            }
        }
        for k in 0..npos {
            for i in 0..n * n {
                let cell = &tables[k][i];
                if cell.lens == 0 && cell.bad == 0 {
                    continue; // key not visited (restricted first coordinate, or the unused half of a one-coordinate key)
                }
                let (x, y) = (i / n, i % n);
                let (x, y) = if dir == "enc" { (x as u32, y as u32) } else { (ALPHABET[x] as u32, ALPHABET[y] as u32) };
                out.emit(&json!({"op":"sweep","dir":dir,"k":k + 1,"x":x,"y":y,
                                 "seen":cell.seen_list(),"lens":cell.lens_list(),"bad":cell.bad}));
            }
        }
    }
}

pub fn run(o: &Opts) -> i32 {
    let mut out = Out::create(o.req("out"));
    let firsts = o.num("sweep", 0) as usize;
    if firsts > 0 {
        sweep(&mut out, firsts, o.num("threads", 12) as usize);
    }
    if let Some(cases) = o.get("cases") {
        // streamed: the thorough tier replays millions of cases
        use std::io::BufRead;
        let fh = std::fs::File::open(cases).unwrap_or_else(|e| {
            eprintln!("cannot open {}: {}", cases, e);
            std::process::exit(2)
        });
        for line in std::io::BufReader::new(fh).lines() {
            let line = line.expect("read line");
            if line.trim().is_empty() {
                continue;
            }
            let c: Value = serde_json::from_str(&line).unwrap_or_else(|e| {
                eprintln!("bad json in {}: {}", cases, e);
                std::process::exit(2)
            });
            if !c["txt"].is_null() {
                let ev = dec_event(&bytes_of(&c["txt"]));
                if !ev.is_null() {
                    out.emit(&ev);
                }
                continue;
            }
            let input = bytes_of(&c["in"]);
            let (ev, text) = enc_event(&input);
            out.emit(&ev);
            if let Some(t) = text {
                out.emit(&dec_event(t.as_bytes()));
            }
        }
    }
    let seed = o.num("seed", 1);
    let mut rng = rand::rngs::StdRng::seed_from_u64(seed);
    // random inputs, every length residue mod 3
    let nrand = o.num("random", 0);
    let maxlen = o.num("maxlen", 300) as usize;
    for i in 0..nrand {
        let len = if maxlen < 3 { maxlen } else { (rng.gen_range(0..=maxlen) / 3) * 3 + (i as usize % 3) };
        let input: Vec<u8> = (0..len).map(|_| rng.gen()).collect();
        let (ev, text) = enc_event(&input);
        out.emit(&ev);
        if let Some(t) = text {
            out.emit(&dec_event(t.as_bytes()));
        }
    }
    // a few inputs at the upper end of the quantifier (64 KiB), one per length residue mod 3
    let nbig = o.num("big", 0);
    let biglen = o.num("biglen", 65536) as usize;
    for i in 0..nbig {
        // 65536, 65535, 65534, then half of it, a third of it ... (each in the three residues)
        let len = (biglen / (1 + i as usize / 3)).saturating_sub(i as usize % 3);
        let input: Vec<u8> = (0..len).map(|_| rng.gen()).collect();
        let (ev, text) = enc_event(&input);
        out.emit(&ev);
        // the decoder is quadratic in the text length (a minute per 64 KiB): only the first `bigdec` texts go back
        if let Some(t) = text {
            if i < o.num("bigdec", 0) {
                out.emit(&dec_event(t.as_bytes()));
            }
        }
    }
    // single-character corruptions of valid texts
    let ncorr = o.num("corrupt", 0);
    for _ in 0..ncorr {
        let len = rng.gen_range(1..=24usize);
        let input: Vec<u8> = (0..len).map(|_| rng.gen()).collect();
        let (_, text) = enc_event(&input);
        if let Some(t) = text {
            let tb = t.as_bytes();
            for pos in 0..tb.len() {
                // random replacement characters at this position: one ASCII, one from Latin-1/BMP, one astral
                let reps: [char; 3] = [
                    rng.gen_range(0..128u8) as char,
                    char::from_u32(rng.gen_range(0x80..0xD800u32)).unwrap_or('\u{100}'),
                    char::from_u32(rng.gen_range(0x10000..0x10FFFFu32)).unwrap_or('\u{10000}'),
                ];
                for repl in reps {
                    if repl as u32 == tb[pos] as u32 {
                        continue;
                    }
                    let mut m = tb[..pos].to_vec();
                    let mut buf = [0u8; 4];
                    m.extend_from_slice(repl.encode_utf8(&mut buf).as_bytes());
                    m.extend_from_slice(&tb[pos + 1..]);
                    let ev = dec_event(&m);
                    if !ev.is_null() {
                        out.emit(&ev);
                    }
                }
            }
        }
    }
    // INSERTION of foreign characters (line breaks as MIME folding puts them, blanks, URL-safe alphabet characters) at every
    // position of texts long enough to contain several 76-character lines
    let nins = o.num("insert", 0);
    for k in 0..nins {
        let len = [57usize, 58, 114, 171, 60, 230][k as usize % 6];
        let input: Vec<u8> = (0..len).map(|_| rng.gen()).collect();
        let (_, text) = enc_event(&input);
        if let Some(t) = text {
            let tb = t.as_bytes();
            for ins in ["\n", "\r\n", " ", "\t", "-", "_", "\r"] {
                for pos in 0..=tb.len() {
                    let m = [&tb[..pos], ins.as_bytes(), &tb[pos..]].concat();
                    let ev = dec_event(&m);
                    if !ev.is_null() {
                        out.emit(&ev);
                    }
                }
                // folded the MIME way: the separator after every 76 characters
                let mut folded: Vec<u8> = vec![];
                for (i, c) in tb.iter().enumerate() {
                    if i > 0 && i % 76 == 0 {
                        folded.extend_from_slice(ins.as_bytes());
                    }
                    folded.push(*c);
                }
                if folded.len() > tb.len() {
                    out.emit(&dec_event(&folded));
                }
            }
        }
    }
    // foreign characters inside LONG texts (a block-wise decoder may validate its blocks differently from its tail): every
    // foreign ASCII character substituted at the first, a middle and the last position of each 1024-character block region
    let nlong = o.num("longforeign", 0);
    for k in 0..nlong {
        let len = [1500usize, 2307, 3072, 770][k as usize % 4];
        let input: Vec<u8> = (0..len).map(|_| rng.gen()).collect();
        let (_, text) = enc_event(&input);
        if let Some(t) = text {
            let tb = t.as_bytes();
            out.emit(&dec_event(tb)); // the intact long text must decode to the input
            let positions: Vec<usize> = [0usize, 1, 511, 1023, 1024, 1025, 2047, 2048, tb.len() / 2, tb.len() - 5, tb.len() - 1]
                .iter().cloned().filter(|p| *p < tb.len() && tb[*p] != b'=').collect();
            // the decoder is quadratic in the text length: the substitutions are decoded by several threads, emitted in order
            let chars: Vec<u8> = (0u8..128).filter(|c| { let ch = *c as char; !(ch.is_ascii_alphanumeric() || ch == '+' || ch == '/' || ch == '=') }).collect();
            let nthreads = (o.num("threads", 12) as usize).max(1);
            let tbv = std::sync::Arc::new(tb.to_vec());
            let posv = std::sync::Arc::new(positions.clone());
            let handles: Vec<_> = (0..nthreads)
                .map(|ti| {
                    let (tbv, posv) = (tbv.clone(), posv.clone());
                    let mine: Vec<u8> = chars.iter().cloned().enumerate().filter(|(i, _)| i % nthreads == ti).map(|(_, c)| c).collect();
                    std::thread::spawn(move || {
                        let mut evs = vec![];
                        for c in mine {
                            for p in posv.iter() {
                                let mut m = tbv.to_vec();
                                m[*p] = c;
                                evs.push((c, dec_event(&m)));
                            }
                        }
                        evs
                    })
                })
                .collect();
            let mut all: Vec<(u8, Value)> = handles.into_iter().flat_map(|h| h.join().unwrap_or_default()).collect();
            all.sort_by_key(|(c, _)| *c);
            for (_, ev) in all {
                out.emit(&ev);
            }
        }
    }
    let n = out.n;
    out.finish();
    eprintln!("base64: {} events", n);
    0
}
