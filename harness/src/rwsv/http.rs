//! Shared pieces of the connection-level domains: scripted mock transport, request concretiser,
//! response projector (the trusted, deliberately dumb part: see spec/HttpMsg.tla header).
use crate::util::*;
use rws::app::App;
use rws::core::New;
use rws::server::{Address, ConnectionInfo, Server};
use serde_json::{json, Value};
use std::io::{Read, Write};
use std::sync::{Arc, Mutex};

/// What the transport does on each call (fault script). Unlimited = accept everything.
#[derive(Clone, Debug)]
pub enum WriteStep {
    Accept(usize), // accept at most n bytes of this call
    Error,         // return an io::Error
}

#[derive(Default)]
pub struct Wire {
    pub write_calls: Vec<(usize, isize)>, // (offered, accepted or -1 for error)
    pub continues: Vec<bool>,             // per write call: the buffer starts with what the previous call left unaccepted
    pub flush_at: Vec<usize>,             // per flush call: how many write calls had been made before it
    pub rest: Vec<u8>,                    // bytes offered by the last write call and not accepted
    pub accepted: Vec<u8>,
    pub flushes: u32,
    pub reads: u32,
}

pub struct Mock {
    pub input: Vec<u8>,
    pub pos: usize,
    pub read_error: bool,
    pub write_script: Vec<WriteStep>, // consumed front to back; afterwards unlimited
    pub flush_error: bool,
    pub wire: Arc<Mutex<Wire>>,
}

impl Mock {
    pub fn new(input: Vec<u8>) -> (Mock, Arc<Mutex<Wire>>) {
        let wire = Arc::new(Mutex::new(Wire::default()));
        (
            Mock { input, pos: 0, read_error: false, write_script: vec![], flush_error: false, wire: wire.clone() },
            wire,
        )
    }
}

/// what a mock transport does once a connection has read an exhausted stream 100 000 times (see Read for Mock)
pub static SPIN_EXITS: std::sync::atomic::AtomicBool = std::sync::atomic::AtomicBool::new(false);

impl Read for Mock {
    fn read(&mut self, buf: &mut [u8]) -> std::io::Result<usize> {
        let reads = {
            let mut w = self.wire.lock().unwrap();
            w.reads += 1;
            w.reads
        };
        // a connection that keeps reading an exhausted transport is spinning: no client can end it.
        // The process leaves with a code the parent records as outcome "hang" (no Conn action).
        if reads > 100_000 {
            if SPIN_EXITS.load(std::sync::atomic::Ordering::SeqCst) {
                std::process::exit(97); // conn-child: the parent records outcome "hang" and restarts after this case
            }
            // elsewhere (the pool legs): the worker running this connection never comes back, which is what the
            // trace must show; park instead of burning a core
            loop {
                std::thread::sleep(std::time::Duration::from_secs(3600));
            }
        }
        if self.read_error {
            return Err(std::io::Error::new(std::io::ErrorKind::ConnectionReset, "scripted read error"));
        }
        let n = std::cmp::min(buf.len(), self.input.len() - self.pos);
        buf[..n].copy_from_slice(&self.input[self.pos..self.pos + n]);
        self.pos += n;
        Ok(n)
    }
}

impl Write for Mock {
    fn write(&mut self, buf: &[u8]) -> std::io::Result<usize> {
        let step = if self.write_script.is_empty() { WriteStep::Accept(usize::MAX) } else { self.write_script.remove(0) };
        let mut w = self.wire.lock().unwrap();
        let cont = buf.starts_with(&w.rest);
        w.continues.push(cont);
        match step {
            WriteStep::Error => {
                w.rest = buf.to_vec();
                w.write_calls.push((buf.len(), -1));
                Err(std::io::Error::new(std::io::ErrorKind::BrokenPipe, "scripted write error"))
            }
            WriteStep::Accept(n) => {
                let k = std::cmp::min(n, buf.len());
                w.accepted.extend_from_slice(&buf[..k]);
                w.rest = buf[k..].to_vec();
                w.write_calls.push((buf.len(), k as isize));
                Ok(k)
            }
        }
    }
    fn flush(&mut self) -> std::io::Result<()> {
        {
            let mut w = self.wire.lock().unwrap();
            w.flushes += 1;
            let n = w.write_calls.len();
            w.flush_at.push(n);
        }
        if self.flush_error {
            return Err(std::io::Error::new(std::io::ErrorKind::BrokenPipe, "scripted flush error"));
        }
        Ok(())
    }
}

pub fn connection_info(request_size: i64) -> ConnectionInfo {
    ConnectionInfo {
        client: Address { ip: "127.0.0.1".to_string(), port: 54321 },
        server: Address { ip: "127.0.0.1".to_string(), port: 7878 },
        request_size,
    }
}

pub struct Ran {
    pub outcome: String, // "ok" | "err" | "panic"
    pub msg: String,
    pub loc: String,
    pub raw: Vec<u8>,
    pub write_calls: Vec<(usize, isize)>,
    pub continues: Vec<bool>,
    pub flush_at: Vec<usize>,
    pub flushes: u32,
}

/// the production entry point: Server::process(stream, ConnectionInfo, App)
pub fn run_prod(mock: Mock, wire: Arc<Mutex<Wire>>, request_size: i64) -> Ran {
    let out = guarded(move || Server::process(mock, connection_info(request_size), App::new()));
    finish(out.map_unit(), wire)
}

/// the legacy entry point: Server::process_request(stream, peer)
pub fn run_legacy(mock: Mock, wire: Arc<Mutex<Wire>>) -> Ran {
    let peer: std::net::SocketAddr = "127.0.0.1:54321".parse().unwrap();
    let out = guarded(move || {
        let _bytes = Server::process_request(mock, peer);
        Ok::<(), String>(())
    });
    finish(out.map_unit(), wire)
}

pub trait MapUnit {
    fn map_unit(self) -> Outcome<Result<(), String>>;
}
impl MapUnit for Outcome<Result<(), String>> {
    fn map_unit(self) -> Outcome<Result<(), String>> {
        self
    }
}

fn finish(out: Outcome<Result<(), String>>, wire: Arc<Mutex<Wire>>) -> Ran {
    let w = wire.lock().unwrap();
    let (outcome, msg, loc) = match out {
        Outcome::Done(Ok(())) => ("ok".to_string(), String::new(), String::new()),
        Outcome::Done(Err(e)) => ("err".to_string(), e, String::new()),
        Outcome::Panic { msg, loc } => ("panic".to_string(), msg, short_loc(&loc)),
    };
    Ran { outcome, msg, loc, raw: w.accepted.clone(), write_calls: w.write_calls.clone(), continues: w.continues.clone(), flush_at: w.flush_at.clone(), flushes: w.flushes }
}

fn find(hay: &[u8], needle: &[u8], from: usize) -> Option<usize> {
    if needle.is_empty() || hay.len() < needle.len() {
        return None;
    }
    (from..=hay.len() - needle.len()).find(|&i| &hay[i..i + needle.len()] == needle)
}

fn trim_ows(b: &[u8]) -> &[u8] {
    let mut s = 0;
    let mut e = b.len();
    while s < e && (b[s] == b' ' || b[s] == b'\t') {
        s += 1;
    }
    while e > s && (b[e - 1] == b' ' || b[e - 1] == b'\t') {
        e -= 1;
    }
    &b[s..e]
}

fn lossy(b: &[u8]) -> String {
    String::from_utf8_lossy(b).to_string()
}

/// mode "full": everything incl. body bytes; "hi": head + set of byte values >= 128 + body length (no body bytes);
/// "head": head only + body length
pub fn project(raw: &[u8], mode: &str) -> Value {
    let head_end = find(raw, b"\r\n\r\n", 0);
    let (head, body, head_ok) = match head_end {
        Some(i) => (&raw[..i], &raw[i + 4..], true),
        None => (raw, &raw[raw.len()..], false),
    };
    let mut lines: Vec<&[u8]> = vec![];
    let mut start = 0;
    loop {
        match find(head, b"\r\n", start) {
            Some(i) => {
                lines.push(&head[start..i]);
                start = i + 2;
            }
            None => {
                lines.push(&head[start..]);
                break;
            }
        }
    }
    let sl = lines[0];
    let mut status = 0u64;
    let mut phrase = String::new();
    if let Some(sp) = sl.iter().position(|&c| c == b' ') {
        let rest = &sl[sp + 1..];
        if rest.len() >= 3 && rest[..3].iter().all(|c| c.is_ascii_digit()) {
            status = (rest[0] - b'0') as u64 * 100 + (rest[1] - b'0') as u64 * 10 + (rest[2] - b'0') as u64;
        }
        if let Some(sp2) = rest.iter().position(|&c| c == b' ') {
            phrase = lossy(&rest[sp2 + 1..]);
        }
    }
    let mut hs = vec![];
    for l in &lines[1..] {
        let (nb, vb, colon) = match l.iter().position(|&c| c == b':') {
            Some(i) => (&l[..i], &l[i + 1..], true),
            None => (&l[..], &l[l.len()..], false),
        };
        let n = lossy(nb);
        let mut h = json!({"n": n, "nl": n.to_ascii_lowercase(), "v": lossy(trim_ows(vb)), "colon": colon});
        if mode == "full" || mode == "head" {
            h["nb"] = ints(nb);
            h["vb"] = ints(vb);
        }
        hs.push(h);
    }
    let mut hi: Vec<u8> = raw.iter().copied().filter(|b| *b >= 128).collect();
    hi.sort();
    hi.dedup();
    let mut r = json!({
        "raw_len": raw.len(), "head_ok": head_ok, "status": status, "phrase": phrase,
        "hs": hs, "body_len": body.len(), "hi": ints(&hi),
    });
    if mode == "full" || mode == "head" {
        r["sl"] = ints(sl);
    }
    // a body of more than 1 MiB travels as a SAMPLE (offsets and the bytes found there): the first and last 64 bytes, every
    // 65 537th byte and the bytes around every multiple of 1 MiB.  Mechanical; Static judges the sample against the file model.
    let big = body.len() > (1 << 20);
    r["big"] = json!(big);
    let mut pos: Vec<usize> = vec![];
    if big {
        let n = body.len();
        pos.extend(0..64);
        pos.extend(n - 64..n);
        pos.extend((0..n).step_by(65537));
        for m in 1..=(n >> 20) {
            for d in [-2i64, -1, 0, 1] {
                let p = (m << 20) as i64 + d;
                if p >= 0 && (p as usize) < n {
                    pos.push(p as usize);
                }
            }
        }
        pos.sort();
        pos.dedup();
    }
    r["sample"] = json!({"pos": pos, "val": pos.iter().map(|p| body[*p] as u64).collect::<Vec<u64>>()});
    if mode == "full" {
        r["body"] = if big { json!([]) } else { ints(body) };
    }
    // ndelims: how many lines of the body consist of "--" + the boundary parameter of Content-Type (0 without one).  A mechanical
    // count, used by Static!C03Violations for range lists too long for the part-by-part judgement.
    let mut ndelims = 0usize;
    for h in r["hs"].as_array().cloned().unwrap_or_default() {
        if h["nl"] == "content-type" {
            if let Some(p) = h["v"].as_str().unwrap_or("").find("boundary=") {
                let b = h["v"].as_str().unwrap()[p + 9..].trim().to_string();
                if !b.is_empty() {
                    let delim = format!("--{}", b);
                    ndelims = body.split(|c| *c == b'\n').filter(|l| {
                        let l = if l.last() == Some(&b'\r') { &l[..l.len() - 1] } else { &l[..] };
                        l == delim.as_bytes()
                    }).count();
                }
            }
        }
    }
    r["ndelims"] = json!(ndelims);
    r
}

// ----------------------------------------------------------------------------- request concretiser

fn offset_text(o: &Value) -> String {
    match o["k"].as_str().unwrap_or("junk") {
        "n" => o["v"].as_u64().unwrap_or(0).to_string(),
        "big" => {
            if o["v"].as_u64().unwrap_or(1) == 1 {
                "18446744073709551615".to_string()
            } else {
                "18446744073709551616".to_string()
            }
        }
        _ => "x".to_string(),
    }
}

pub fn range_header_value(range: &Value) -> String {
    let ws = range["ws"].as_bool().unwrap_or(false);
    let style = range["style"].as_str().unwrap_or("plain");
    let num = |o: &Value| -> String {
        let t = offset_text(o);
        if style == "leading_zeros" && t.chars().all(|c| c.is_ascii_digit()) && !t.is_empty() { format!("00{}", t) } else { t }
    };
    let dash = if style == "sp_around_dash" { " - " } else { "-" };
    let specs: Vec<String> = range["specs"]
        .as_array()
        .map(|a| {
            a.iter()
                .map(|s| match s["t"].as_str().unwrap_or("junk") {
                    "fl" => format!("{}{}{}", num(&s["a"]), dash, num(&s["b"])),
                    "f" => format!("{}{}", num(&s["a"]), dash.trim_end()),
                    "s" => format!("{}{}", dash.trim_start(), num(&s["a"])),
                    _ => "abc".to_string(),
                })
                .collect()
        })
        .unwrap_or_default();
    let unit = if range["unit_ok"].as_bool().unwrap_or(true) { "bytes=" } else { "items=" };
    let sep = if ws { " , " } else { match style { "sp_after_comma" => ", ", "tab_after_comma" => ",\t", _ => "," } };
    let mut list = specs.join(sep);
    if style == "empty_element" {
        // an extra empty element: in front when there is one spec, in the middle otherwise
        list = if specs.len() <= 1 { format!(",{}", list) } else { list.replacen(sep, ",,", 1) };
    }
    let eq_sp = if style == "sp_after_eq" { " " } else { "" };
    let tail = if style == "trailing_sp" { " " } else { "" };
    format!("{}{}{}{}", unit, eq_sp, list, tail)
}

pub fn target_of(q: &Value) -> String {
    let segs: Vec<&str> = q["segs"].as_array().map(|a| a.iter().map(|s| s.as_str().unwrap_or("")).collect()).unwrap_or_default();
    format!("{}{}{}{}", q["lead"].as_str().unwrap_or("/"), segs.join("/"), q["query"].as_str().unwrap_or(""), q["frag"].as_str().unwrap_or(""))
}

/// abstract request -> bytes on the wire
pub fn request_bytes(q: &Value, method: &str) -> Vec<u8> {
    let mut s = format!("{} {} HTTP/1.1\r\nHost: localhost\r\n", method, target_of(q));
    if q["range"]["present"].as_bool().unwrap_or(false) {
        s.push_str(&format!("Range: {}\r\n", range_header_value(&q["range"])));
    }
    if q["has_origin"].as_bool().unwrap_or(false) {
        s.push_str(&format!("Origin: {}\r\n", q["origin"].as_str().unwrap_or("")));
    }
    if q["preflight"].as_bool().unwrap_or(false) {
        s.push_str("Access-Control-Request-Method: PUT\r\nAccess-Control-Request-Headers: Content-Type, X-Custom\r\n");
    }
    s.push_str("\r\n");
    s.into_bytes()
}
