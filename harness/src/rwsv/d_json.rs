//! C19: the library's JSON traits on three harness-defined structs (every field optional) and the typed arrays.
//! For each abstract value: build the struct, to_json_string, parse the text back with the library, and parse it
//! with an independent parser (serde_json); all three are projected to the same record shape for Trace_Codec.
//! Numbers: integers as canonical decimal strings, floats as their IEEE-754 bit pattern ("bits:<hex>").
use crate::util::*;
use rws::core::New;
use rws::json::array::boolean::JSONArrayOfBooleans;
use rws::json::array::float::JSONArrayOfFloats;
use rws::json::array::integer::JSONArrayOfIntegers;
use rws::json::array::null::JSONArrayOfNulls;
use rws::json::array::object::JSONArrayOfObjects;
use rws::json::array::string::JSONArrayOfStrings;
use rws::json::object::{FromJSON, ToJSON, JSON};
use rws::json::property::{JSONProperty, JSONValue};
use rws::json::JSON_TYPE;
use rws::null::{Null, NULL};
use serde_json::{json, Value};

fn prop(name: &str, ty: &str) -> JSONProperty {
    JSONProperty { property_name: name.to_string(), property_type: ty.to_string() }
}

macro_rules! from_json_boilerplate {
    () => {
        fn parse_json_to_properties(&self, json_string: String) -> Result<Vec<(JSONProperty, JSONValue)>, String> {
            JSON::parse_as_properties(json_string)
        }
        fn parse(&mut self, json_string: String) -> Result<(), String> {
            let properties = self.parse_json_to_properties(json_string)?;
            self.set_properties(properties)
        }
    };
}

// ----------------------------------------------------------------------------- Leaf
#[derive(Clone, Debug, Default)]
pub struct Leaf {
    pub name: String,
    pub n: i128,
    pub sub: Option<Box<Leaf>>, // a nested object of the same type: nesting depth is data (abstract value: `chain`)
    pub tags: Option<Vec<i128>>, // an array inside an object that itself sits inside an array or a nested object
}
impl New for Leaf {
    fn new() -> Self {
        Leaf::default()
    }
}
impl ToJSON for Leaf {
    fn list_properties() -> Vec<JSONProperty> {
        vec![prop("name", JSON_TYPE.string), prop("n", JSON_TYPE.integer), prop("sub", JSON_TYPE.object), prop("tags", JSON_TYPE.array)]
    }
    fn get_property(&self, property_name: String) -> JSONValue {
        let mut v = JSONValue::new();
        match property_name.as_str() {
            "name" => v.string = Some(self.name.clone()),
            "n" => v.i128 = Some(self.n),
            "sub" => { if let Some(l) = &self.sub { v.object = Some(l.to_json_string()) } }
            "tags" => { if let Some(a) = &self.tags { if let Ok(j) = JSONArrayOfIntegers::to_json_from_list_i128(a) { v.array = Some(j) } } }
            _ => {}
        }
        v
    }
    fn to_json_string(&self) -> String {
        JSON::to_json_string(Leaf::list_properties().into_iter().map(|p| { let v = self.get_property(p.property_name.to_string()); (p, v) }).collect())
    }
}
impl FromJSON for Leaf {
    from_json_boilerplate!();
    fn set_properties(&mut self, properties: Vec<(JSONProperty, JSONValue)>) -> Result<(), String> {
        for (p, v) in properties {
            match p.property_name.as_str() {
                "name" => { if let Some(s) = v.string { self.name = s } }
                "n" => { if let Some(i) = v.i128 { self.n = i } }
                "sub" => {
                    if let Some(o) = v.object {
                        let mut l = Leaf::new();
                        l.parse(o)?;
                        self.sub = Some(Box::new(l));
                    }
                }
                "tags" => { if let Some(a) = v.array { self.tags = Some(JSONArrayOfIntegers::parse_as_list_i128(a)?) } }
                _ => {}
            }
        }
        Ok(())
    }
}

// ----------------------------------------------------------------------------- Inner
#[derive(Clone, Debug, Default)]
pub struct Inner {
    pub label: String,
    pub flag: bool,
    pub leaf: Option<Leaf>,
    pub items: Option<Vec<Leaf>>, // an array of objects inside a nested object
}
impl New for Inner {
    fn new() -> Self {
        Inner::default()
    }
}
impl ToJSON for Inner {
    fn list_properties() -> Vec<JSONProperty> {
        vec![prop("label", JSON_TYPE.string), prop("flag", JSON_TYPE.boolean), prop("leaf", JSON_TYPE.object), prop("items", JSON_TYPE.array)]
    }
    fn get_property(&self, property_name: String) -> JSONValue {
        let mut v = JSONValue::new();
        match property_name.as_str() {
            "label" => v.string = Some(self.label.clone()),
            "flag" => v.bool = Some(self.flag),
            "leaf" => { if let Some(l) = &self.leaf { v.object = Some(l.to_json_string()) } }
            "items" => { if let Some(a) = &self.items { if let Ok(j) = JSONArrayOfObjects::<Leaf>::to_json(a) { v.array = Some(j) } } }
            _ => {}
        }
        v
    }
    fn to_json_string(&self) -> String {
        JSON::to_json_string(Inner::list_properties().into_iter().map(|p| { let v = self.get_property(p.property_name.to_string()); (p, v) }).collect())
    }
}
impl FromJSON for Inner {
    from_json_boilerplate!();
    fn set_properties(&mut self, properties: Vec<(JSONProperty, JSONValue)>) -> Result<(), String> {
        for (p, v) in properties {
            match p.property_name.as_str() {
                "label" => { if let Some(s) = v.string { self.label = s } }
                "flag" => { if let Some(b) = v.bool { self.flag = b } }
                "leaf" => {
                    if let Some(o) = v.object {
                        let mut l = Leaf::new();
                        l.parse(o)?;
                        self.leaf = Some(l);
                    }
                }
                "items" => { if let Some(a) = v.array { self.items = Some(JSONArrayOfObjects::<Leaf>::from_json(a)?) } }
                _ => {}
            }
        }
        Ok(())
    }
}

// ----------------------------------------------------------------------------- Outer
#[derive(Clone, Debug, Default)]
pub struct Outer {
    pub s: Option<String>,
    pub b: Option<bool>,
    pub i: Option<i128>,
    pub f: Option<f64>,
    pub obj: Option<Inner>,
    pub objs: Option<Vec<Leaf>>,
    pub ints: Option<Vec<i128>>,
    pub strs: Option<Vec<String>>,
}
impl New for Outer {
    fn new() -> Self {
        Outer::default()
    }
}
impl ToJSON for Outer {
    fn list_properties() -> Vec<JSONProperty> {
        vec![prop("s", JSON_TYPE.string), prop("b", JSON_TYPE.boolean), prop("i", JSON_TYPE.integer), prop("f", JSON_TYPE.number),
             prop("obj", JSON_TYPE.object), prop("objs", JSON_TYPE.array), prop("ints", JSON_TYPE.array), prop("strs", JSON_TYPE.array)]
    }
    fn get_property(&self, property_name: String) -> JSONValue {
        let mut v = JSONValue::new();
        match property_name.as_str() {
            "s" => v.string = self.s.clone(),
            "b" => v.bool = self.b,
            "i" => v.i128 = self.i,
            "f" => v.f64 = self.f,
            "obj" => { if let Some(o) = &self.obj { v.object = Some(o.to_json_string()) } }
            "objs" => { if let Some(a) = &self.objs { if let Ok(j) = JSONArrayOfObjects::<Leaf>::to_json(a) { v.array = Some(j) } } }
            "ints" => { if let Some(a) = &self.ints { if let Ok(j) = JSONArrayOfIntegers::to_json_from_list_i128(a) { v.array = Some(j) } } }
            "strs" => { if let Some(a) = &self.strs { if let Ok(j) = JSONArrayOfStrings::to_json_from_list_string(a) { v.array = Some(j) } } }
            _ => {}
        }
        v
    }
    fn to_json_string(&self) -> String {
        JSON::to_json_string(Outer::list_properties().into_iter().map(|p| { let v = self.get_property(p.property_name.to_string()); (p, v) }).collect())
    }
}
impl FromJSON for Outer {
    from_json_boilerplate!();
    fn set_properties(&mut self, properties: Vec<(JSONProperty, JSONValue)>) -> Result<(), String> {
        for (p, v) in properties {
            match p.property_name.as_str() {
                "s" => { if v.string.is_some() { self.s = v.string } }
                "b" => { if v.bool.is_some() { self.b = v.bool } }
                "i" => { if v.i128.is_some() { self.i = v.i128 } }
                "f" => {
                    if v.f64.is_some() { self.f = v.f64 }
                    // a float without fraction digits is typed as an integer by the library's reader
                    else if let Some(i) = v.i128 { self.f = Some(i as f64) }
                }
                "obj" => {
                    if let Some(o) = v.object {
                        let mut x = Inner::new();
                        x.parse(o)?;
                        self.obj = Some(x);
                    }
                }
                "objs" => { if let Some(a) = v.array { self.objs = Some(JSONArrayOfObjects::<Leaf>::from_json(a)?) } }
                "ints" => { if let Some(a) = v.array { self.ints = Some(JSONArrayOfIntegers::parse_as_list_i128(a)?) } }
                "strs" => { if let Some(a) = v.array { self.strs = Some(JSONArrayOfStrings::parse_as_list_string(a)?) } }
                _ => {}
            }
        }
        Ok(())
    }
}

// ----------------------------------------------------------------------------- abstract value <-> struct
fn present(v: &Value) -> bool {
    v["p"].as_bool().unwrap_or(false)
}
fn fbits(x: f64) -> String {
    format!("bits:{:016x}", x.to_bits())
}
fn opt<T>(p: bool, v: Value, none: Value, _t: T) -> Value {
    if p { json!({"p": true, "v": v}) } else { json!({"p": false, "v": none}) }
}
fn leaf_of(v: &Value) -> Leaf {
    // chain = the leaves nested below this one, outermost first
    let mut sub: Option<Box<Leaf>> = None;
    if let Some(chain) = v["chain"].as_array() {
        for c in chain.iter().rev() {
            sub = Some(Box::new(Leaf { name: c["name"].as_str().unwrap_or("").to_string(), n: c["n"].as_str().unwrap_or("0").parse().unwrap_or(0), sub, tags: None }));
        }
    }
    let tags = if present(&v["tags"]) { Some(v["tags"]["v"].as_array().unwrap().iter().map(|x| x.as_str().unwrap().parse().unwrap()).collect()) } else { None };
    Leaf { name: v["name"].as_str().unwrap_or("").to_string(), n: v["n"].as_str().unwrap_or("0").parse().unwrap_or(0), sub, tags }
}
fn leaf_json(l: &Leaf) -> Value {
    let mut chain = vec![];
    let mut cur = &l.sub;
    while let Some(x) = cur {
        chain.push(json!({"name": x.name, "n": x.n.to_string()}));
        cur = &x.sub;
    }
    json!({"name": l.name, "n": l.n.to_string(), "chain": chain,
           "tags": opt(l.tags.is_some(), json!(l.tags.clone().unwrap_or_default().iter().map(|x| x.to_string()).collect::<Vec<_>>()), json!([]), 0)})
}
fn inner_of(v: &Value) -> Inner {
    Inner { label: v["label"].as_str().unwrap_or("").to_string(), flag: v["flag"].as_str() == Some("true"),
            leaf: if present(&v["leaf"]) { Some(leaf_of(&v["leaf"]["v"])) } else { None },
            items: if present(&v["items"]) { Some(v["items"]["v"].as_array().unwrap().iter().map(leaf_of).collect()) } else { None } }
}
fn no_leaf() -> Value {
    json!({"p": false, "v": {"name": "", "n": "0", "chain": [], "tags": {"p": false, "v": []}}})
}
fn inner_json(i: &Inner) -> Value {
    json!({"label": i.label, "flag": i.flag.to_string(),
           "leaf": match &i.leaf { Some(l) => json!({"p": true, "v": leaf_json(l)}), None => no_leaf() },
           "items": opt(i.items.is_some(), json!(i.items.clone().unwrap_or_default().iter().map(leaf_json).collect::<Vec<_>>()), json!([]), 0)})
}
fn outer_of(c: &Value) -> Outer {
    Outer {
        s: if present(&c["s"]) { Some(c["s"]["v"].as_str().unwrap().to_string()) } else { None },
        b: if present(&c["b"]) { Some(c["b"]["v"].as_str() == Some("true")) } else { None },
        i: if present(&c["i"]) { Some(c["i"]["v"].as_str().unwrap().parse().unwrap()) } else { None },
        f: if present(&c["f"]) { Some(c["f"]["v"].as_str().unwrap().parse().unwrap()) } else { None },
        obj: if present(&c["obj"]) { Some(inner_of(&c["obj"]["v"])) } else { None },
        objs: if present(&c["objs"]) { Some(c["objs"]["v"].as_array().unwrap().iter().map(leaf_of).collect()) } else { None },
        ints: if present(&c["ints"]) { Some(c["ints"]["v"].as_array().unwrap().iter().map(|x| x.as_str().unwrap().parse().unwrap()).collect()) } else { None },
        strs: if present(&c["strs"]) { Some(c["strs"]["v"].as_array().unwrap().iter().map(|x| x.as_str().unwrap().to_string()).collect()) } else { None },
    }
}
fn outer_json(o: &Outer) -> Value {
    let nostr = json!("");
    json!({
        "s": opt(o.s.is_some(), json!(o.s.clone().unwrap_or_default()), nostr.clone(), 0),
        "b": opt(o.b.is_some(), json!(o.b.unwrap_or(false).to_string()), nostr.clone(), 0),
        "i": opt(o.i.is_some(), json!(o.i.unwrap_or(0).to_string()), nostr.clone(), 0),
        "f": opt(o.f.is_some(), json!(fbits(o.f.unwrap_or(0.0))), nostr.clone(), 0),
        "obj": match &o.obj { Some(i) => json!({"p": true, "v": inner_json(i)}), None => json!({"p": false, "v": {"label": "", "flag": "false", "leaf": no_leaf(), "items": {"p": false, "v": []}}}) },
        "objs": opt(o.objs.is_some(), json!(o.objs.clone().unwrap_or_default().iter().map(leaf_json).collect::<Vec<_>>()), json!([]), 0),
        "ints": opt(o.ints.is_some(), json!(o.ints.clone().unwrap_or_default().iter().map(|x| x.to_string()).collect::<Vec<_>>()), json!([]), 0),
        "strs": opt(o.strs.is_some(), json!(o.strs.clone().unwrap_or_default()), json!([]), 0),
    })
}

// independent parser (serde_json) -> the same shapes
fn ind_int(v: &Value) -> Value {
    if let Some(i) = v.as_i64() { json!(i.to_string()) }
    else if let Some(u) = v.as_u64() { json!(u.to_string()) }
    else if v.is_number() { json!("<beyond-64-bit>") }     // serde_json (no arbitrary precision) reads these as f64: not compared
    else { json!("<not-a-number>") }
}
fn ind_float(v: &Value) -> Value {
    match v.as_f64() { Some(x) if v.is_number() => json!(fbits(x)), _ => json!("<not-a-number>") }
}
fn ind_str(v: &Value) -> Value {
    match v.as_str() { Some(s) => json!(s), None => json!("<not-a-string>") }
}
fn ind_bool(v: &Value) -> Value {
    match v.as_bool() { Some(b) => json!(b.to_string()), None => json!("<not-a-bool>") }
}
fn ind_leaf(v: &Value) -> Value {
    let mut chain = vec![];
    let mut cur = v.get("sub");
    while let Some(x) = cur {
        chain.push(json!({"name": ind_str(&x["name"]), "n": ind_int(&x["n"])}));
        cur = x.get("sub");
    }
    let tags = match v.get("tags") {
        None => json!({"p": false, "v": []}),
        Some(t) => json!({"p": true, "v": match t.as_array() { Some(a) => json!(a.iter().map(ind_int).collect::<Vec<_>>()), None => json!(["<not-an-array>"]) }}),
    };
    json!({"name": ind_str(&v["name"]), "n": ind_int(&v["n"]), "chain": chain, "tags": tags})
}
fn ind_inner(v: &Value) -> Value {
    json!({"label": ind_str(&v["label"]), "flag": ind_bool(&v["flag"]),
           "leaf": if v.get("leaf").is_some() { json!({"p": true, "v": ind_leaf(&v["leaf"])}) } else { no_leaf() },
           "items": match v.get("items") {
               None => json!({"p": false, "v": []}),
               Some(t) => json!({"p": true, "v": match t.as_array() { Some(a) => json!(a.iter().map(ind_leaf).collect::<Vec<_>>()), None => json!(["<not-an-array>"]) }}),
           }})
}
fn ind_outer(v: &Value) -> Value {
    let has = |k: &str| v.get(k).is_some();
    let arr = |k: &str, f: &dyn Fn(&Value) -> Value| -> Value {
        match v[k].as_array() { Some(a) => json!(a.iter().map(f).collect::<Vec<_>>()), None => json!(["<not-an-array>"]) }
    };
    let nostr = json!("");
    json!({
        "s": opt(has("s"), ind_str(&v["s"]), nostr.clone(), 0),
        "b": opt(has("b"), ind_bool(&v["b"]), nostr.clone(), 0),
        "i": opt(has("i"), ind_int(&v["i"]), nostr.clone(), 0),
        "f": opt(has("f"), ind_float(&v["f"]), nostr.clone(), 0),
        "obj": if has("obj") { json!({"p": true, "v": ind_inner(&v["obj"])}) } else { json!({"p": false, "v": {"label": "", "flag": "false", "leaf": no_leaf(), "items": {"p": false, "v": []}}}) },
        "objs": opt(has("objs"), arr("objs", &ind_leaf), json!([]), 0),
        "ints": opt(has("ints"), arr("ints", &ind_int), json!([]), 0),
        "strs": opt(has("strs"), arr("strs", &ind_str), json!([]), 0),
        "extra_keys": v.as_object().map(|m| m.keys().filter(|k| !["s","b","i","f","obj","objs","ints","strs"].contains(&k.as_str())).count()).unwrap_or(0),
    })
}

// ----------------------------------------------------------------------------- Odd: unusual property NAMES
/// A struct whose property names are what real code uses and the other structs avoid: camelCase, upper case, digits and
/// underscores, names that are prefixes of one another, names equal to JSON literals.  All fields are always present.
pub const ODD_NAMES: [(&str, &str); 9] = [("userName", "s"), ("ID", "i"), ("x", "b"), ("xx", "s"), ("X", "s"), ("a_b2", "i"), ("true", "s"), ("null", "i"), ("Is Set", "b")];
#[derive(Clone, Debug, Default)]
pub struct Odd {
    pub strs: std::collections::BTreeMap<String, String>,
    pub ints: std::collections::BTreeMap<String, i128>,
    pub bools: std::collections::BTreeMap<String, bool>,
}
impl New for Odd {
    fn new() -> Self {
        Odd::default()
    }
}
impl ToJSON for Odd {
    fn list_properties() -> Vec<JSONProperty> {
        ODD_NAMES.iter().map(|(n, t)| prop(n, match *t { "s" => JSON_TYPE.string, "i" => JSON_TYPE.integer, _ => JSON_TYPE.boolean })).collect()
    }
    fn get_property(&self, property_name: String) -> JSONValue {
        let mut v = JSONValue::new();
        if let Some(x) = self.strs.get(&property_name) { v.string = Some(x.clone()) }
        if let Some(x) = self.ints.get(&property_name) { v.i128 = Some(*x) }
        if let Some(x) = self.bools.get(&property_name) { v.bool = Some(*x) }
        v
    }
    fn to_json_string(&self) -> String {
        JSON::to_json_string(Odd::list_properties().into_iter().map(|p| { let v = self.get_property(p.property_name.to_string()); (p, v) }).collect())
    }
}
impl FromJSON for Odd {
    from_json_boilerplate!();
    fn set_properties(&mut self, properties: Vec<(JSONProperty, JSONValue)>) -> Result<(), String> {
        for (p, v) in properties {
            // exact, case-sensitive name comparison, as a struct written against the library would do
            if let Some((n, t)) = ODD_NAMES.iter().find(|(n, _)| *n == p.property_name.as_str()) {
                match *t {
                    "s" => { if let Some(x) = v.string { self.strs.insert(n.to_string(), x); } }
                    "i" => { if let Some(x) = v.i128 { self.ints.insert(n.to_string(), x); } }
                    _ => { if let Some(x) = v.bool { self.bools.insert(n.to_string(), x); } }
                }
            }
        }
        Ok(())
    }
}
fn odd_json(o: &Odd) -> Value {
    // one record: name -> value as text (integers canonical decimal, booleans "true"/"false"); "<absent>" when not set
    let mut m = serde_json::Map::new();
    for (n, t) in ODD_NAMES.iter() {
        let v = match *t {
            "s" => o.strs.get(*n).cloned(),
            "i" => o.ints.get(*n).map(|x| x.to_string()),
            _ => o.bools.get(*n).map(|x| x.to_string()),
        };
        m.insert(n.to_string(), json!(v.unwrap_or_else(|| "<absent>".to_string())));
    }
    Value::Object(m)
}
pub fn json_odd(c: &Value) -> Value {
    let mut o = Odd::new();
    for (n, t) in ODD_NAMES.iter() {
        let v = c["fields"][*n].as_str().unwrap_or("");
        match *t {
            "s" => { o.strs.insert(n.to_string(), v.to_string()); }
            "i" => { o.ints.insert(n.to_string(), v.parse().unwrap_or(0)); }
            _ => { o.bools.insert(n.to_string(), v == "true"); }
        }
    }
    let value = odd_json(&o);
    let o2 = o.clone();
    let text = match guarded(move || o2.to_json_string()) {
        Outcome::Done(t) => t,
        Outcome::Panic { msg, loc } => return json!({"op":"json_odd","value":value,"obs":{"outcome":"panic","stage":"to_json","msg":msg,"loc":short_loc(&loc)},"ind":{"outcome":"err"}}),
    };
    let t2 = text.clone();
    let lib = match guarded(move || { let mut x = Odd::new(); x.parse(t2).map(|_| x) }) {
        Outcome::Done(Ok(x)) => json!({"outcome":"ok","parsed":odd_json(&x)}),
        Outcome::Done(Err(e)) => json!({"outcome":"err","msg":e}),
        Outcome::Panic { msg, loc } => json!({"outcome":"panic","msg":msg,"loc":short_loc(&loc)}),
    };
    let ind = match serde_json::from_str::<Value>(&text) {
        Ok(v) if v.is_object() => {
            let mut m = serde_json::Map::new();
            for (n, t) in ODD_NAMES.iter() {
                let x = match v.get(*n) {
                    None => json!("<absent>"),
                    Some(x) => match *t { "s" => ind_str(x), "i" => ind_int(x), _ => ind_bool(x) },
                };
                m.insert(n.to_string(), x);
            }
            json!({"outcome":"ok","parsed":Value::Object(m),"keys":v.as_object().map(|o| o.len()).unwrap_or(0)})
        }
        Ok(_) => json!({"outcome":"err","msg":"not an object"}),
        Err(e) => json!({"outcome":"err","msg":e.to_string()}),
    };
    json!({"op":"json_odd","value":value,"text":text,"obs":lib,"ind":ind})
}

pub fn json_object(c: &Value) -> Value {
    let o = outer_of(c);
    let value = outer_json(&o);
    let o2 = o.clone();
    let text = match guarded(move || o2.to_json_string()) {
        Outcome::Done(t) => t,
        Outcome::Panic { msg, loc } => return json!({"op":"json_object","value":value,"obs":{"outcome":"panic","stage":"to_json","msg":msg,"loc":short_loc(&loc)}}),
    };
    let t2 = text.clone();
    let lib = match guarded(move || { let mut x = Outer::new(); x.parse(t2).map(|_| x) }) {
        Outcome::Done(Ok(x)) => json!({"outcome":"ok","parsed":outer_json(&x)}),
        Outcome::Done(Err(e)) => json!({"outcome":"err","msg":e}),
        Outcome::Panic { msg, loc } => json!({"outcome":"panic","msg":msg,"loc":short_loc(&loc)}),
    };
    let ind = match serde_json::from_str::<Value>(&text) {
        Ok(v) if v.is_object() => json!({"outcome":"ok","parsed":ind_outer(&v)}),
        Ok(_) => json!({"outcome":"err","msg":"not an object"}),
        // serde_json refuses integer-looking literals of ~309 digits (f64::MAX printed without exponent) although they are
        // valid JSON: a limitation of this independent parser, reported as such and not judged
        Err(e) if e.to_string().starts_with("number out of range") => json!({"outcome":"unsupported","msg":e.to_string()}),
        Err(e) => json!({"outcome":"err","msg":e.to_string()}),
    };
    json!({"op":"json_object","value":value,"text":text,"obs":lib,"ind":ind})
}

// ----------------------------------------------------------------------------- typed arrays
macro_rules! int_array {
    ($items:expr, $t:ty, $to:path, $from:path) => {{
        let xs: Vec<$t> = $items.iter().map(|x| x.parse::<$t>().unwrap()).collect();
        let text = guarded(|| $to(&xs));
        match text {
            Outcome::Done(Ok(t)) => {
                let t2 = t.clone();
                let back = match guarded(move || $from(t2)) {
                    Outcome::Done(Ok(v)) => json!({"outcome":"ok","items":v.iter().map(|x| x.to_string()).collect::<Vec<_>>()}),
                    Outcome::Done(Err(e)) => json!({"outcome":"err","msg":e}),
                    Outcome::Panic { msg, loc } => json!({"outcome":"panic","msg":msg,"loc":short_loc(&loc)}),
                };
                (xs.iter().map(|x| x.to_string()).collect::<Vec<String>>(), Some(t), back)
            }
            Outcome::Done(Err(e)) => (xs.iter().map(|x| x.to_string()).collect(), None, json!({"outcome":"err","stage":"to_json","msg":e})),
            Outcome::Panic { msg, loc } => (xs.iter().map(|x| x.to_string()).collect(), None, json!({"outcome":"panic","stage":"to_json","msg":msg,"loc":short_loc(&loc)})),
        }
    }};
}

pub fn json_array(c: &Value) -> Value {
    let ty = c["ty"].as_str().unwrap();
    let items: Vec<String> = c["items"].as_array().unwrap().iter().map(|x| x.as_str().unwrap().to_string()).collect();
    let (norm, text, back): (Vec<String>, Option<String>, Value) = match ty {
        "i8" => int_array!(items, i8, JSONArrayOfIntegers::to_json_from_list_i8, JSONArrayOfIntegers::parse_as_list_i8),
        "i16" => int_array!(items, i16, JSONArrayOfIntegers::to_json_from_list_i16, JSONArrayOfIntegers::parse_as_list_i16),
        "i32" => int_array!(items, i32, JSONArrayOfIntegers::to_json_from_list_i32, JSONArrayOfIntegers::parse_as_list_i32),
        "i64" => int_array!(items, i64, JSONArrayOfIntegers::to_json_from_list_i64, JSONArrayOfIntegers::parse_as_list_i64),
        "i128" => int_array!(items, i128, JSONArrayOfIntegers::to_json_from_list_i128, JSONArrayOfIntegers::parse_as_list_i128),
        "u8" => int_array!(items, u8, JSONArrayOfIntegers::to_json_from_list_u8, JSONArrayOfIntegers::parse_as_list_u8),
        "u16" => int_array!(items, u16, JSONArrayOfIntegers::to_json_from_list_u16, JSONArrayOfIntegers::parse_as_list_u16),
        "u32" => int_array!(items, u32, JSONArrayOfIntegers::to_json_from_list_u32, JSONArrayOfIntegers::parse_as_list_u32),
        "u64" => int_array!(items, u64, JSONArrayOfIntegers::to_json_from_list_u64, JSONArrayOfIntegers::parse_as_list_u64),
        "u128" => int_array!(items, u128, JSONArrayOfIntegers::to_json_from_list_u128, JSONArrayOfIntegers::parse_as_list_u128),
        "f64" | "f32" => {
            let is32 = ty == "f32";
            let bits = |x: f64| if is32 { format!("bits:{:08x}", (x as f32).to_bits()) } else { fbits(x) };
            let xs: Vec<f64> = items.iter().map(|x| x.parse::<f64>().unwrap()).collect();
            let xs32: Vec<f32> = xs.iter().map(|x| *x as f32).collect();
            let xs_b = xs.clone();
            let text = if is32 { guarded(move || JSONArrayOfFloats::to_json_from_list_f32(&xs32)) } else { guarded(move || JSONArrayOfFloats::to_json_from_list_f64(&xs_b)) };
            let norm: Vec<String> = xs.iter().map(|x| bits(*x)).collect();
            match text {
                Outcome::Done(Ok(t)) => {
                    let t2 = t.clone();
                    let back = if is32 {
                        match guarded(move || JSONArrayOfFloats::parse_as_list_f32(t2)) {
                            Outcome::Done(Ok(v)) => json!({"outcome":"ok","items":v.iter().map(|x| format!("bits:{:08x}", x.to_bits())).collect::<Vec<_>>()}),
                            Outcome::Done(Err(e)) => json!({"outcome":"err","msg":e}),
                            Outcome::Panic { msg, loc } => json!({"outcome":"panic","msg":msg,"loc":short_loc(&loc)}),
                        }
                    } else {
                        match guarded(move || JSONArrayOfFloats::parse_as_list_f64(t2)) {
                            Outcome::Done(Ok(v)) => json!({"outcome":"ok","items":v.iter().map(|x| fbits(*x)).collect::<Vec<_>>()}),
                            Outcome::Done(Err(e)) => json!({"outcome":"err","msg":e}),
                            Outcome::Panic { msg, loc } => json!({"outcome":"panic","msg":msg,"loc":short_loc(&loc)}),
                        }
                    };
                    (norm, Some(t), back)
                }
                Outcome::Done(Err(e)) => (norm, None, json!({"outcome":"err","stage":"to_json","msg":e})),
                Outcome::Panic { msg, loc } => (norm, None, json!({"outcome":"panic","stage":"to_json","msg":msg,"loc":short_loc(&loc)})),
            }
        }
        "string" => {
            let xs = items.clone();
            match guarded(move || JSONArrayOfStrings::to_json_from_list_string(&xs)) {
                Outcome::Done(Ok(t)) => {
                    let t2 = t.clone();
                    let back = match guarded(move || JSONArrayOfStrings::parse_as_list_string(t2)) {
                        Outcome::Done(Ok(v)) => json!({"outcome":"ok","items":v}),
                        Outcome::Done(Err(e)) => json!({"outcome":"err","msg":e}),
                        Outcome::Panic { msg, loc } => json!({"outcome":"panic","msg":msg,"loc":short_loc(&loc)}),
                    };
                    (items.clone(), Some(t), back)
                }
                Outcome::Done(Err(e)) => (items.clone(), None, json!({"outcome":"err","stage":"to_json","msg":e})),
                Outcome::Panic { msg, loc } => (items.clone(), None, json!({"outcome":"panic","stage":"to_json","msg":msg,"loc":short_loc(&loc)})),
            }
        }
        "bool" => {
            let xs: Vec<bool> = items.iter().map(|x| x == "true").collect();
            match guarded(move || JSONArrayOfBooleans::to_json_from_list_bool(&xs)) {
                Outcome::Done(Ok(t)) => {
                    let t2 = t.clone();
                    let back = match guarded(move || JSONArrayOfBooleans::parse_as_list_bool(t2)) {
                        Outcome::Done(Ok(v)) => json!({"outcome":"ok","items":v.iter().map(|x| x.to_string()).collect::<Vec<_>>()}),
                        Outcome::Done(Err(e)) => json!({"outcome":"err","msg":e}),
                        Outcome::Panic { msg, loc } => json!({"outcome":"panic","msg":msg,"loc":short_loc(&loc)}),
                    };
                    (items.clone(), Some(t), back)
                }
                Outcome::Done(Err(e)) => (items.clone(), None, json!({"outcome":"err","stage":"to_json","msg":e})),
                Outcome::Panic { msg, loc } => (items.clone(), None, json!({"outcome":"panic","stage":"to_json","msg":msg,"loc":short_loc(&loc)})),
            }
        }
        _ => {
            let n = items.len();
            match guarded(move || { let xs: Vec<&Null> = (0..n).map(|_| NULL).collect(); JSONArrayOfNulls::to_json_from_list_null(&xs) }) {
                Outcome::Done(Ok(t)) => {
                    let t2 = t.clone();
                    let back = match guarded(move || JSONArrayOfNulls::parse_as_list_null(t2)) {
                        Outcome::Done(Ok(v)) => json!({"outcome":"ok","items":v.iter().map(|_| "null".to_string()).collect::<Vec<_>>()}),
                        Outcome::Done(Err(e)) => json!({"outcome":"err","msg":e}),
                        Outcome::Panic { msg, loc } => json!({"outcome":"panic","msg":msg,"loc":short_loc(&loc)}),
                    };
                    (items.clone(), Some(t), back)
                }
                Outcome::Done(Err(e)) => (items.clone(), None, json!({"outcome":"err","stage":"to_json","msg":e})),
                Outcome::Panic { msg, loc } => (items.clone(), None, json!({"outcome":"panic","stage":"to_json","msg":msg,"loc":short_loc(&loc)})),
            }
        }
    };
    // independent parse of the emitted text
    let ind = match &text {
        None => json!({"outcome":"err","msg":"no text"}),
        Some(t) => match serde_json::from_str::<Value>(t) {
            Ok(Value::Array(a)) => {
                let items: Vec<Value> = a.iter().map(|x| match ty {
                    "f64" => ind_float(x),
                    "f32" => match x.as_f64() { Some(v) if x.is_number() => json!(format!("bits:{:08x}", (v as f32).to_bits())), _ => json!("<not-a-number>") },
                    "string" => ind_str(x),
                    "bool" => ind_bool(x),
                    "null" => if x.is_null() { json!("null") } else { json!("<not-null>") },
                    _ => ind_int(x),
                }).collect();
                json!({"outcome":"ok","items":items})
            }
            Ok(_) => json!({"outcome":"err","msg":"not an array"}),
            Err(e) if e.to_string().starts_with("number out of range") => json!({"outcome":"unsupported","msg":e.to_string()}),
            Err(e) => json!({"outcome":"err","msg":e.to_string()}),
        },
    };
    json!({"op":"json_array","ty":ty,"value":{"items":norm},"text":text.unwrap_or_default(),"obs":back,"ind":ind})
}
