//! C20: every parsing entry point of the library on structure-aware mutations of valid seed documents and on random
//! bytes.  Each call runs on its own named thread with a 2 MiB stack and a watchdog, inside a child process (a stack
//! overflow aborts the process; the parent records "abort" for that case and restarts after it).
use crate::util::*;
use rand::{Rng, SeedableRng};
use rws::body::form_urlencoded::FormUrlEncoded;
use rws::body::multipart_form_data::FormMultipartData;
use rws::core::base64::Base64;
use rws::entry_point::config_file::read_config_file;
use rws::header::content_disposition::ContentDisposition;
use rws::header::Header;
use rws::json::array::boolean::JSONArrayOfBooleans;
use rws::json::array::float::JSONArrayOfFloats;
use rws::json::array::integer::JSONArrayOfIntegers;
use rws::json::array::null::JSONArrayOfNulls;
use rws::json::array::object::JSONArrayOfObjects;
use rws::json::array::string::JSONArrayOfStrings;
use rws::json::array::RawUnprocessedJSONArray;
use rws::json::object::JSON;
use rws::range::Range;
use rws::request::Request;
use rws::response::Response;
use rws::url::path::UrlPath;
use serde_json::{json, Value};
use std::collections::HashMap;
use std::io::{BufRead, Write};
use std::time::Duration;

pub fn seeds(ep: &str) -> Vec<Vec<u8>> {
    let s = |x: &str| x.as_bytes().to_vec();
    match ep {
        "json_object" => vec![
            s("{\r\n  \"s\": \"text\",\r\n  \"b\": true,\r\n  \"i\": -42,\r\n  \"f\": 1.5e3,\r\n  \"n\": null,\r\n  \"obj\": {\r\n  \"k\": \"v\",\r\n  \"deep\": { \"x\": 1 } },\r\n  \"arr\": [1, 2, {\"a\": [true, null]}]\r\n}"),
            s("{ \"a\": \"b\" }"),
            s("{\"k\":[[[[\"x\"]]]],\"o\":{\"o\":{\"o\":{}}}}"),
            s("{}"),
        ],
        "json_array_split" | "json_array_object" => vec![s("[{\"name\": \"a\", \"n\": 1}, {\"name\": \"b\", \"n\": -2}]"), s("[ ]"), s("[[1,2],[3,[4,5]],{\"k\":\"v\"},\"s\",null,true,-1.5e3]"), s("[\"a,b\", \"c]d\"]")],
        "json_array_i128" => vec![s("[1, -2, 170141183460469231731687303715884105727]"), s("[]"), s("[0]"), s("[-0, 00, 1e3]")],
        "json_array_u8" => vec![s("[0, 255, 7]"), s("[256]"), s("[-1]"), s("[1.5]")],
        "json_array_i8" | "json_array_i16" | "json_array_i32" | "json_array_i64" => vec![s("[1, -2, 127]"), s("[]"), s("[-128, 0]")],
        "json_array_u16" | "json_array_u32" | "json_array_u64" | "json_array_u128" => vec![s("[0, 255, 7]"), s("[65535]"), s("[]")],
        "json_array_f32" => vec![s("[0.0, -1.5, 3.4028235e38]"), s("[1]"), s("[1e-45]")],
        "json_property_parse" => vec![s("\"name\": \"value\""), s("\"n\": -12"), s("\"f\": 1.5e3"), s("\"o\": { \"a\": [1, 2] }")],
        "url_parse" => vec![s("http://user:pw@example.com:8080/p/a/t/h?query=1&b=%20#frag"), s("https://[::1]:443/"), s("http://h")],
        "url_parse_query" => vec![s("a=1&b=two%20words&c=%E2%82%AC&d"), s("=&&="), s("x=%")],
        "cli_parse" => vec![s("--port=7878\n--ip=127.0.0.1\n-t=4\n--cors-allow-origins=https://a.example,https://b.example"), s("-p=1\n--unknown=2\n=\n--"), s("--port")],
        "range_multipart_body" => vec![s("--String_separator\r\nContent-Type: text/plain\r\nContent-Range: bytes 0-1/10\r\n\r\nab\r\n--String_separator\r\nContent-Type: text/plain\r\nContent-Range: bytes 4-5/10\r\n\r\nef\r\n--String_separator")],
        "range_in_content_range" => vec![s("0-1"), s("5-"), s("-3"), s(" 2 - 4 ")],
        "response_parse_legacy" => vec![
            s("HTTP/1.1 200 OK\r\nContent-Type: text/plain\r\nContent-Range: bytes 0-4/5\r\nContent-Length: 5\r\n\r\nhello"),
            s("HTTP/1.1 206 Partial Content\r\nContent-Type: multipart/byteranges; boundary=String_separator\r\nContent-Length: 190\r\n\r\n--String_separator\r\nContent-Type: text/plain\r\nContent-Range: bytes 0-1/10\r\n\r\nab\r\n--String_separator\r\nContent-Type: text/plain\r\nContent-Range: bytes 4-5/10\r\n\r\nef\r\n--String_separator\r\n"),
            s("HTTP/1.1 404 Not Found\r\n\r\n")],
        "status_line_legacy" => vec![s("HTTP/1.1 200 OK"), s("HTTP/1.0 404 Not Found\r\n"), s("HTTP/2.0 500 Internal Server Error")],
        "request_line" => vec![s("GET /a.txt HTTP/1.1"), s("POST /x?y=1#z HTTP/1.0\r\n"), s("OPTIONS * HTTP/2.0")],
        "request_header_line" | "header_parse_header" => vec![s("Host: localhost"), s("Content-Type: text/html; charset=utf-8\r\n"), s("X:"), s("A: b: c")],
        "request_target_path" | "request_target_query" => vec![s("/a/b.txt?x=1&y=%20#frag"), s("/"), s("/p?"), s("*")],
        "percent_decode" => vec![s("a%20b%2Fc%E2%82%AC"), s("%"), s("%4"), s("100%25")],
        "mime_detect" => vec![s("/a/b.tar.gz"), s("/x.HTML?y=z.png"), s("noext"), s(".hidden")],
        "base64_decode_sequence" => vec![s("TWFu"), s("TQ=="), s("TWE=")],
        "json_array_f64" => vec![s("[0.0, -1.5, 1e21, 5e-324]"), s("[1]"), s("[.5, 5., 1e, -]"), s("[NaN, Infinity]")],
        "json_array_string" => vec![s("[\"a\", \"b c\", \"\"]"), s("[\"\\\"q\\\"\", \"\\\\\"]"), s("[\"\u{e9}\"]"), s("[\"unterminated]")],
        "json_array_bool" => vec![s("[true, false]"), s("[True]"), s("[tru]"), s("[truefalse]")],
        "json_array_null" => vec![s("[null, null]"), s("[nul]"), s("[Null]"), s("[nullnull]")],
        "base64_decode" => vec![s("TWFueSBoYW5kcw=="), s("TQ=="), s("TWE="), s("")],
        "multipart_parse" => vec![
            s("--b\r\nContent-Disposition: form-data; name=\"f\"\r\n\r\nvalue\r\n--b\r\nContent-Disposition: form-data; name=\"g\"; filename=\"x.bin\"\r\nContent-Type: application/octet-stream\r\n\r\n\u{0}\u{1}\r\n--b--\r\n"),
            s("--b\r\nContent-Disposition: form-data; name=\"f\"\r\n\r\n\r\n--b"),
        ],
        "request_parse" => vec![
            s("POST /p?x=1 HTTP/1.1\r\nHost: h\r\nContent-Type: text/plain\r\nContent-Length: 3\r\n\r\nabc"),
            s("GET / HTTP/1.1\r\n\r\n"),
        ],
        "response_parse" => vec![
            s("HTTP/1.1 200 OK\r\nContent-Type: text/plain\r\nContent-Range: bytes 0-2/2\r\nContent-Length: 2\r\n\r\nhi"),
            s("HTTP/1.1 206 Partial Content\r\nContent-Type: multipart/byteranges; boundary=String_separator\r\n\r\n--String_separator\r\nContent-Type: text/plain\r\nContent-Range: bytes 0-1/10\r\n\r\nab\r\n--String_separator\r\nContent-Type: text/plain\r\nContent-Range: bytes 4-5/10\r\n\r\nef\r\n--String_separator"),
        ],
        "header_parse" => vec![s("Content-Type: text/html; charset=utf-8"), s("X: ")],
        "content_disposition_parse" => vec![s("form-data; name=\"field\"; filename=\"a b.txt\""), s("attachment; filename=\"x\""), s("inline"), s("form-data")],
        "content_range_parse" => vec![s("bytes 0-9/100"), s("bytes 5-5/6")],
        "range_header_parse" => vec![s("bytes=0-1, 3-4, -2"), s("bytes=5-")],
        "config_file" => vec![
            s("ip = '127.0.0.1'\nport = 7888\nthread_count = 200\n\n[cors]\nallow_all = false # comment\nallow_origins = [\"https://foo.example\", \"https://bar.example\"]\nmax_age = \"86400\"\n"),
            s("# only a comment\n\n"),
        ],
        "path_extract_parts" | "path_build" => vec![s("/users/[[id]]/posts/[[post]]"), s("/static/file.txt"), s("[[a]][[b]]"), s("/x/[[")],
        "path_is_matching" | "path_extract" => vec![s("/users/42/posts/7|/users/[[id]]/posts/[[post]]"), s("/a|/a"), s("/a/b|/[[x]]"), s("|")],
        "boundary_extract" => vec![s("multipart/form-data; boundary=----WebKitFormBoundaryX"), s("multipart/form-data")],
        "form_urlencoded_parse" => vec![s("a=1&b=two+words&c=%26%3D"), s("k=v")],
        _ => vec![s("x")],
    }
}

fn class_bytes(cls: &str) -> Vec<u8> {
    let one = |b: u8| vec![b];
    match cls {
        "nul" => one(0), "del" => one(0x7f), "x80" => one(0x80), "xc3" => one(0xc3), "xff" => one(0xff), "quote" => one(b'"'), "backslash" => one(b'\\'),
        "lbracket" => one(b'['), "lbrace" => one(b'{'), "rbracket" => one(b']'), "rbrace" => one(b'}'), "comma" => one(b','), "colon" => one(b':'),
        "minus" => one(b'-'), "e" => one(b'e'), "dot" => one(b'.'), "cr" => one(b'\r'), "lf" => one(b'\n'), "space" => one(b' '), "percent" => one(b'%'),
        "equals" => one(b'='), "slash" => one(b'/'), "digit9" => one(b'9'),
        // well-formed multi-byte characters (2, 3 and 4 bytes): these do reach the String-taking entry points
        "utf8_2" => "\u{e9}".as_bytes().to_vec(), "utf8_3" => "\u{65e5}".as_bytes().to_vec(), "utf8_4" => "\u{1f600}".as_bytes().to_vec(),
        _ => one(b'a'),
    }
}

/// apply one abstract mutation to a seed; "all" expands to one document per position
pub fn mutants(seed: &[u8], m: &Value) -> Vec<Vec<u8>> {
    let op = m["op"].as_str().unwrap_or("identity");
    let bs = class_bytes(m["cls"].as_str().unwrap_or("letter"));
    let b = bs[0];
    let at = m["at"].as_u64().unwrap_or(0) as usize;
    let all = m["all"].as_bool().unwrap_or(false);
    let pos = |permille: usize| -> usize { if permille >= 1000 { seed.len() } else { seed.len() * permille / 100 } };
    let one = |p: usize| -> Vec<u8> {
        let p = p.min(seed.len());
        match op {
            "truncate" => seed[..p].to_vec(),
            "flip" => {
                // replace the byte at p (for a multi-byte class: the whole character starting at or before p)
                if p < seed.len() {
                    let mut start = p;
                    while start > 0 && (seed[start] & 0xC0) == 0x80 { start -= 1 }
                    let mut end = p + 1;
                    while end < seed.len() && (seed[end] & 0xC0) == 0x80 { end += 1 }
                    if bs.len() == 1 { let mut v = seed.to_vec(); v[p] = b; v } else { [&seed[..start], &bs[..], &seed[end..]].concat() }
                } else {
                    [seed, &bs[..]].concat()
                }
            }
            "insert" => [&seed[..p], &bs[..], &seed[p..]].concat(),
            "delete" => if p < seed.len() { [&seed[..p], &seed[p + 1..]].concat() } else { seed.to_vec() },
            "duplicate_tail" => [seed, &seed[p..]].concat(),
            _ => seed.to_vec(),
        }
    };
    // every CRLF of the seed replaced by the class byte
    let eol = |doc: &[u8]| -> Vec<u8> {
        let mut v = Vec::with_capacity(doc.len());
        let mut i = 0;
        while i < doc.len() {
            if doc[i] == b'\r' && i + 1 < doc.len() && doc[i + 1] == b'\n' {
                v.push(b);
                i += 2;
            } else {
                v.push(doc[i]);
                i += 1;
            }
        }
        v
    };
    match op {
        "identity" => vec![seed.to_vec()],
        "eol" => vec![eol(seed)],
        // numeric boundary substitution: the k-th maximal digit run of the seed (op number: each run in turn; op numbers: all
        // runs at once) is replaced by the at-th special value
        "number" | "numbers" => {
            const SPECIAL: [&str; 32] = ["-129", "-32769", "-2147483649", "-9223372036854775809", "-170141183460469231731687303715884105729",
                "-128", "-32768", "-0","0", "1", "127", "128", "255", "256", "32767", "32768", "65535", "65536", "2147483647", "2147483648",
                "4294967295", "4294967296", "9223372036854775807", "9223372036854775808", "18446744073709551615", "18446744073709551616",
                "170141183460469231731687303715884105727", "340282366920938463463374607431768211456", "-1", "-9223372036854775808",
                "00000000000000000000000000000001", "1e400"];
            let sp = SPECIAL[(at.max(1) - 1) % SPECIAL.len()].as_bytes();
            // digit runs
            let mut runs: Vec<(usize, usize)> = vec![];
            let mut i = 0;
            while i < seed.len() {
                if seed[i].is_ascii_digit() {
                    let st = i;
                    while i < seed.len() && seed[i].is_ascii_digit() { i += 1 }
                    runs.push((st, i));
                } else {
                    i += 1;
                }
            }
            if runs.is_empty() {
                vec![]
            } else if op == "numbers" {
                let mut v = vec![];
                let mut last = 0;
                for (a, b2) in runs.iter() {
                    v.extend_from_slice(&seed[last..*a]);
                    v.extend_from_slice(sp);
                    last = *b2;
                }
                v.extend_from_slice(&seed[last..]);
                vec![v]
            } else {
                runs.iter().map(|(a, b2)| [&seed[..*a], sp, &seed[*b2..]].concat()).collect()
            }
        }
        // structure-level repetition: the seed n times over (many parts / lines / elements), and the leading quarter,
        // half or three quarters of it n times followed by the whole seed (class digit9 / letter / e selects the cut)
        "repeat_seed" => vec![seed.repeat(at), [seed.repeat(at), seed[..seed.len() / 2].to_vec()].concat()],
        "repeat_head" => {
            let cut = match b { b'9' => seed.len() / 4, b'e' => seed.len() * 3 / 4, _ => seed.len() / 2 };
            vec![[seed[..cut].repeat(at), seed.to_vec()].concat()]
        }
        "eol_truncate" => {
            let d = eol(seed);
            (0..=d.len()).map(|p| d[..p].to_vec()).collect()
        }
        "nest" => {
            // n opening delimiters in front of the seed (deep nesting), and the same around it
            let n = at;
            let close = match b { b'[' => b']', b'{' => b'}', x => x };
            vec![[vec![b; n], seed.to_vec()].concat(), [vec![b; n], seed.to_vec(), vec![close; n]].concat()]
        }
        "long_line" => vec![[seed.to_vec(), vec![b; at]].concat(), [vec![b; at], seed.to_vec()].concat()],
        "repeat_delim" => {
            let mid = seed.len() / 2;
            vec![[&seed[..mid], &vec![b; at][..], &seed[mid..]].concat()]
        }
        _ if all => (0..=seed.len()).map(one).collect(),
        _ => vec![one(pos(at))],
    }
}

fn text(b: &[u8]) -> Option<String> {
    String::from_utf8(b.to_vec()).ok()
}

/// call one entry point; Ok(true) = value, Ok(false) = error reported; inputs a &str API cannot express are skipped (None)
fn call(ep: &str, input: &[u8]) -> Option<bool> {
    let r = match ep {
        "json_object" => JSON::parse_as_properties(text(input)?).is_ok(),
        "json_array_split" => RawUnprocessedJSONArray::split_into_vector_of_strings(text(input)?).is_ok(),
        "json_array_object" => JSONArrayOfObjects::<crate::d_json::Leaf>::from_json(text(input)?).is_ok(),
        "json_array_i128" => JSONArrayOfIntegers::parse_as_list_i128(text(input)?).is_ok(),
        "json_array_u8" => JSONArrayOfIntegers::parse_as_list_u8(text(input)?).is_ok(),
        "json_array_i8" => JSONArrayOfIntegers::parse_as_list_i8(text(input)?).is_ok(),
        "json_array_i16" => JSONArrayOfIntegers::parse_as_list_i16(text(input)?).is_ok(),
        "json_array_i32" => JSONArrayOfIntegers::parse_as_list_i32(text(input)?).is_ok(),
        "json_array_i64" => JSONArrayOfIntegers::parse_as_list_i64(text(input)?).is_ok(),
        "json_array_u16" => JSONArrayOfIntegers::parse_as_list_u16(text(input)?).is_ok(),
        "json_array_u32" => JSONArrayOfIntegers::parse_as_list_u32(text(input)?).is_ok(),
        "json_array_u64" => JSONArrayOfIntegers::parse_as_list_u64(text(input)?).is_ok(),
        "json_array_u128" => JSONArrayOfIntegers::parse_as_list_u128(text(input)?).is_ok(),
        "json_array_f32" => JSONArrayOfFloats::parse_as_list_f32(text(input)?).is_ok(),
        "json_property_parse" => rws::json::property::JSONProperty::parse(&text(input)?).is_ok(),
        "url_parse" => rws::url::URL::parse(&text(input)?).is_ok(),
        "url_parse_query" => { let _ = rws::url::URL::parse_query(&text(input)?); true }
        "cli_parse" => {
            // one argument per line; the parser applies what it recognises to the process environment: restore it afterwards
            let saved: Vec<(String, String)> = std::env::vars().filter(|(k, _)| k.starts_with("RWS_CONFIG_")).collect();
            let args: Vec<String> = text(input)?.split('\n').map(|x| x.to_string()).collect();
            let params = rws::entry_point::command_line_args::CommandLineArgument::get_command_line_arg_list();
            let _ = rws::entry_point::command_line_args::CommandLineArgument::_parse(args, params);
            for (k, _) in std::env::vars().filter(|(k, _)| k.starts_with("RWS_CONFIG_")).collect::<Vec<_>>() {
                std::env::remove_var(k);
            }
            for (k, v) in saved {
                std::env::set_var(k, v);
            }
            true
        }
        "range_multipart_body" => {
            let mut cursor = std::io::Cursor::new(input);
            Range::parse_multipart_body(&mut cursor, vec![]).is_ok()
        }
        "range_in_content_range" => Range::parse_range_in_content_range(100, &text(input)?).is_ok(),
        // the remaining public readers: the legacy ("_"-prefixed) response reader, the line-level readers of requests and
        // responses, the request-target accessors, percent decoding and the media type lookup
        "response_parse_legacy" => { let _ = Response::_parse_response(input); true }
        "status_line_legacy" => Response::_parse_http_version_status_code_reason_phrase_string(&text(input)?).is_ok(),
        "request_line" => Request::parse_method_and_request_uri_and_http_version_string(&text(input)?).is_ok(),
        "request_header_line" => { let _ = Request::parse_http_request_header_string(&text(input)?); true }
        "header_parse_header" => Header::parse_header(&text(input)?).is_ok(),
        "request_target_path" => {
            let r = Request { method: "GET".to_string(), request_uri: text(input)?, http_version: "HTTP/1.1".to_string(), headers: vec![], body: vec![] };
            r.get_uri_path().is_ok()
        }
        "request_target_query" => {
            let r = Request { method: "GET".to_string(), request_uri: text(input)?, http_version: "HTTP/1.1".to_string(), headers: vec![], body: vec![] };
            r.get_uri_query().is_ok()
        }
        "percent_decode" => { let _ = rws::url::URL::percent_decode(&text(input)?); true }
        "mime_detect" => { let _ = rws::mime_type::MimeType::detect_mime_type(&text(input)?); let _ = rws::mime_type::MimeType::get_extension_from_filename(&text(input)?); true }
        "base64_decode_sequence" => Base64::decode_sequence(text(input)?).is_ok(),
        "json_array_f64" => JSONArrayOfFloats::parse_as_list_f64(text(input)?).is_ok(),
        "json_array_string" => JSONArrayOfStrings::parse_as_list_string(text(input)?).is_ok(),
        "json_array_bool" => JSONArrayOfBooleans::parse_as_list_bool(text(input)?).is_ok(),
        "json_array_null" => JSONArrayOfNulls::parse_as_list_null(text(input)?).is_ok(),
        "base64_decode" => Base64::decode(text(input)?).is_ok(),
        "multipart_parse" => FormMultipartData::parse(input, "--b".to_string()).is_ok(),
        "request_parse" => Request::parse(input).is_ok(),
        "response_parse" => Response::parse(input).is_ok(),
        "header_parse" => Header::parse(&text(input)?).is_ok(),
        "content_disposition_parse" => ContentDisposition::parse(&text(input)?).is_ok(),
        "content_range_parse" => Range::_parse_content_range_header_value(text(input)?).is_ok(),
        "range_header_parse" => Range::parse_content_range("/nonexistent-file-for-c20", 10, &text(input)?).is_ok(),
        "config_file" => {
            // read_config_file applies what it parses to the process environment: restore it afterwards
            let saved: Vec<(String, String)> = std::env::vars().filter(|(k, _)| k.starts_with("RWS_CONFIG_")).collect();
            let r = read_config_file(std::io::Cursor::new(input), String::new()).is_ok();
            for (k, _) in std::env::vars().filter(|(k, _)| k.starts_with("RWS_CONFIG_")).collect::<Vec<_>>() {
                std::env::remove_var(k);
            }
            for (k, v) in saved {
                std::env::set_var(k, v);
            }
            r
        }
        "path_extract_parts" => UrlPath::extract_parts_from_pattern(&text(input)?).is_ok(),
        "path_build" => {
            let mut m = HashMap::new();
            m.insert("id".to_string(), "1".to_string());
            m.insert("a".to_string(), "x/y".to_string());
            UrlPath::build(m, &text(input)?).is_ok()
        }
        "path_is_matching" | "path_extract" => {
            let t = text(input)?;
            let (path, pattern) = t.split_once('|').unwrap_or((t.as_str(), ""));
            if ep == "path_is_matching" { UrlPath::is_matching(path, pattern).is_ok() } else { UrlPath::extract(path, pattern).is_ok() }
        }
        "boundary_extract" => FormMultipartData::extract_boundary(&text(input)?).is_ok(),
        "form_urlencoded_parse" => FormUrlEncoded::parse(input.to_vec()).is_ok(),
        _ => return None,
    };
    Some(r)
}

fn run_one(ep: String, input: Vec<u8>, timeout: Duration) -> (String, String, String) {
    let (tx, rx) = std::sync::mpsc::channel();
    let inp = input.clone();
    let epc = ep.clone();
    let _ = std::thread::Builder::new().name("0".into()).stack_size(2 << 20).spawn(move || {
        let r = guarded(move || call(&epc, &inp));
        let _ = tx.send(match r {
            Outcome::Done(Some(true)) => ("value".to_string(), String::new(), String::new()),
            Outcome::Done(Some(false)) => ("error".to_string(), String::new(), String::new()),
            Outcome::Done(None) => ("skipped".to_string(), String::new(), String::new()),
            Outcome::Panic { msg, loc } => ("panic".to_string(), msg, short_loc(&loc)),
        });
    });
    match rx.recv_timeout(timeout) {
        Ok(x) => x,
        Err(_) => ("timeout".to_string(), String::new(), String::new()),
    }
}

fn event(i: usize, ep: &str, how: &Value, input: &[u8], out: (String, String, String)) -> Value {
    let mut e = json!({"i": i, "ep": ep, "how": how, "len": input.len(), "head": String::from_utf8_lossy(&input[..input.len().min(80)]), "outcome": out.0});
    if out.0 == "panic" {
        e["msg"] = json!(out.1.chars().take(160).collect::<String>());
        e["loc"] = json!(out.2);
    }
    e
}

/// the concrete work list: TLC's abstract mutations expanded on the seeds, plus seeded random bytes per entry point
fn work(o: &Opts) -> Vec<(String, Value, Vec<u8>)> {
    let mut w = vec![];
    for m in read_ndjson(o.req("cases")) {
        let ep = m["ep"].as_str().unwrap().to_string();
        let ss = seeds(&ep);
        let si = m["seed"].as_u64().unwrap_or(1) as usize;
        if si > ss.len() {
            continue;
        }
        let how = json!({"seed": si, "op": m["op"], "at": m["at"], "cls": m["cls"], "all": m["all"]});
        for d in mutants(&ss[si - 1], &m) {
            w.push((ep.clone(), how.clone(), d));
        }
    }
    let mut rng = rand::rngs::StdRng::seed_from_u64(o.num("seed", 1));
    let eps: Vec<String> = { let mut v: Vec<String> = w.iter().map(|x| x.0.clone()).collect(); v.sort(); v.dedup(); v };
    for ep in eps {
        for k in 0..o.num("random", 50) {
            let len = [0usize, 1, 2, 3, 8, 64, 300][rng.gen_range(0..7)];
            let ascii = k % 2 == 0;
            let d: Vec<u8> = (0..len).map(|_| if ascii { rng.gen_range(32..127u8) } else { rng.gen() }).collect();
            w.push((ep.clone(), json!({"op": "random", "ascii": ascii}), d));
        }
    }
    w
}

pub fn child(o: &Opts) -> i32 {
    let w = work(o);
    let start = o.num("start", 0) as usize;
    let timeout = Duration::from_millis(o.num("timeout-ms", 5000));
    let mut f = std::fs::OpenOptions::new().append(true).create(true).open(o.req("out")).expect("open");
    let mut progress = std::fs::OpenOptions::new().write(true).create(true).truncate(true).open(o.req("progress")).expect("progress");
    for (i, (ep, how, input)) in w.iter().enumerate().skip(start) {
        use std::io::Seek;
        progress.seek(std::io::SeekFrom::Start(0)).ok();
        writeln!(progress, "{:<12}", i).ok();
        let out = run_one(ep.clone(), input.clone(), timeout);
        if out.0 == "skipped" {
            continue;
        }
        let mut line = serde_json::to_vec(&event(i, ep, how, input, out)).unwrap();
        line.push(b'\n');
        f.write_all(&line).unwrap();
    }
    0
}

pub fn run(o: &Opts) -> i32 {
    let w = work(o);
    let total = w.len();
    let out = o.req("out").to_string();
    let progress = format!("{}.progress", out);
    std::fs::write(&out, b"").unwrap();
    let exe = std::env::current_exe().unwrap();
    let mut start = 0usize;
    let mut aborts = 0;
    while start < total {
        let status = std::process::Command::new(&exe)
            .args(["total-child", "--cases", o.req("cases"), "--out", &out, "--progress", &progress, "--start", &start.to_string(),
                   "--seed", &o.num("seed", 1).to_string(), "--random", &o.num("random", 50).to_string(), "--timeout-ms", &o.num("timeout-ms", 5000).to_string()])
            .stdout(std::process::Stdio::null())
            .stderr(std::process::Stdio::null())
            .status()
            .expect("spawn child");
        if status.success() {
            break;
        }
        let crashed: usize = std::fs::read_to_string(&progress).ok().and_then(|s| s.trim().parse().ok()).unwrap_or(start);
        use std::os::unix::process::ExitStatusExt;
        let (ep, how, input) = &w[crashed.min(total - 1)];
        let mut e = event(crashed, ep, how, input, ("abort".to_string(), String::new(), String::new()));
        e["signal"] = json!(status.signal().unwrap_or(0));
        let mut f = std::fs::OpenOptions::new().append(true).open(&out).unwrap();
        writeln!(f, "{}", e).unwrap();
        aborts += 1;
        start = crashed + 1;
        if aborts > 500 {
            eprintln!("too many aborts");
            return 2;
        }
    }
    let _ = std::fs::remove_file(&progress);
    // sanity for the reader: number of lines
    let n = std::io::BufReader::new(std::fs::File::open(&out).unwrap()).lines().count();
    eprintln!("total: {} calls planned, {} recorded, {} process aborts", total, n, aborts);
    0
}
