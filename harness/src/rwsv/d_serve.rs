//! Static serving (C01, C02, C03, C09, C10): materialise the abstract worlds of spec/Worlds.tla (or random ones),
//! chdir into the served root, run every abstract request through the real entry points with a mock transport,
//! and emit Mount / Stat / Serve events for Trace_Static.
use crate::http::*;
use crate::util::*;
use rand::{Rng, SeedableRng};
use serde_json::{json, Value};
use std::collections::{BTreeMap, HashSet};
use std::path::{Path, PathBuf};

fn pat_byte(cls: &str, key: u64, i: u64) -> u8 {
    match cls {
        "pat" => ((key + 131 * i + i / 251) % 256) as u8,
        "ascii" => (32 + (key + 7 * i) % 90) as u8,
        "secret" => (160 + 2 * key + (i % 2)) as u8,
        "text" => [239u8, 187, 191, 60, 112, 62, 13, 10, 104, 105, 10, 13, 32, 9, 0, 228, 13, 10, 13, 10, 45, 45, 10][(i % 23) as usize],
        _ => 0,
    }
}

/// path of node n (1-based) below the scratch directory; node 1 is the top
fn node_path(w: &Value, n: usize, top: &Path) -> PathBuf {
    let nodes = w["nodes"].as_array().unwrap();
    let mut names = vec![];
    let mut cur = n;
    while cur != 1 {
        names.push(nodes[cur - 1]["name"].as_str().unwrap().to_string());
        cur = nodes[cur - 1]["parent"].as_u64().unwrap() as usize;
    }
    let mut p = top.to_path_buf();
    for s in names.iter().rev() {
        p.push(s);
    }
    p
}

/// 2023-01-15 .. 2023-12-15 (every month), 2023-12-31 23:59:59, 2024-01-01 00:00:00, 2024-02-29, 2000-02-29, 1999-12-31 23:59:59,
/// 0, 1, -86400 (1969-12-31), 2^31 - 1, 2^31, 2^32, 2100-01-01, 2100-03-01, "now" is what rewritten / other files have
pub const MTIMES: [i64; 25] = [1673784000, 1676462400, 1678881600, 1681560000, 1684152000, 1686830400, 1689422400, 1692100800, 1694779200,
    1697371200, 1700049600, 1702641600, 1704067199, 1704067200, 1709208000, 951825600, 946684799, 0, 1, -86400, 2147483647, 2147483648,
    4294967296, 4102444800, 4107542400];

pub fn materialise(w: &Value, scratch: &Path) -> (PathBuf, PathBuf) {
    let top = scratch.join(format!("w{}", w["id"]));
    std::fs::create_dir_all(&top).expect("mkdir top");
    let nodes = w["nodes"].as_array().unwrap();
    // directories first (parents have smaller ids in generated worlds, but do not rely on it)
    for pass in 0..3 {
        for (i, nd) in nodes.iter().enumerate() {
            let n = i + 1;
            if n == 1 {
                continue;
            }
            let p = node_path(w, n, &top);
            match (pass, nd["kind"].as_str().unwrap()) {
                (0, "dir") => std::fs::create_dir_all(&p).expect("mkdir"),
                (1, "file") => {
                    let len = nd["len"].as_u64().unwrap();
                    let key = nd["key"].as_u64().unwrap();
                    let cls = nd["cls"].as_str().unwrap();
                    let bytes: Vec<u8> = (0..len).map(|i| pat_byte(cls, key, i)).collect();
                    std::fs::write(&p, bytes).expect("write file");
                    // time as a dimension of the documents: modification times in every month, at the turn of years, on leap
                    // days, at and before the epoch, around 2^31 / 2^32 seconds and in 2100 (the node number selects one)
                    let t = MTIMES[n % MTIMES.len()];
                    let when = if t >= 0 { std::time::UNIX_EPOCH + std::time::Duration::from_secs(t as u64) } else { std::time::UNIX_EPOCH - std::time::Duration::from_secs((-t) as u64) };
                    if let Ok(f) = std::fs::OpenOptions::new().write(true).open(&p) {
                        let _ = f.set_modified(when);
                    }
                }
                (2, "link") => {
                    let segs: Vec<&str> = nd["tsegs"].as_array().unwrap().iter().map(|s| s.as_str().unwrap()).collect();
                    let target = if nd["abs"].as_bool().unwrap_or(false) {
                        format!("{}/{}", top.display(), segs.join("/"))
                    } else {
                        segs.join("/")
                    };
                    std::os::unix::fs::symlink(target, &p).expect("symlink");
                }
                _ => {}
            }
        }
    }
    let root = node_path(w, w["root"].as_u64().unwrap() as usize, &top);
    (top, root)
}

/// The documents change while the server runs: every pattern file of the world gets new content of the SAME length (key + 1)
/// and keeps its modification time (what `rsync -t`, `cp -p`, `tar x` or two writes within one clock tick produce).
/// Returns the world as it is afterwards.
pub fn rewrite_in_place(w: &Value, scratch: &Path) -> Value {
    let top = scratch.join(format!("w{}", w["id"]));
    let mut w2 = w.clone();
    let n_nodes = w["nodes"].as_array().unwrap().len();
    for n in 2..=n_nodes {
        let nd = w["nodes"][n - 1].clone();
        let cls = nd["cls"].as_str().unwrap_or("");
        if nd["kind"] != "file" || !(cls == "pat" || cls == "ascii") {
            continue;
        }
        let p = node_path(w, n, &top);
        let mtime = match std::fs::metadata(&p).and_then(|m| m.modified()) {
            Ok(t) => t,
            Err(_) => continue,
        };
        let len = nd["len"].as_u64().unwrap();
        let key = (nd["key"].as_u64().unwrap() + 1) % 251;
        let bytes: Vec<u8> = (0..len).map(|i| pat_byte(cls, key, i)).collect();
        if std::fs::write(&p, bytes).is_ok() {
            if let Ok(f) = std::fs::OpenOptions::new().write(true).open(&p) {
                let _ = f.set_modified(mtime);
            }
            w2["nodes"][n - 1]["key"] = json!(key);
        }
    }
    w2
}

fn stat_event(root: &Path, segs: &Value) -> Value {
    let parts: Vec<&str> = segs.as_array().map(|a| a.iter().map(|s| s.as_str().unwrap_or("")).collect()).unwrap_or_default();
    let p = format!("{}/{}", root.display(), parts.join("/"));
    match std::fs::metadata(&p) {
        Ok(md) if md.is_file() => json!({"ev":"Stat","segs":segs,"kind":"file","len":md.len()}),
        Ok(md) if md.is_dir() => json!({"ev":"Stat","segs":segs,"kind":"dir","len":0}),
        _ => json!({"ev":"Stat","segs":segs,"kind":"none","len":0}),
    }
}

/// Which built-in asset (compiled into the server from src/app/controller/*/) the body of this raw response equals
/// byte for byte: "index" | "style" | "script" | "favicon" | "404" | "" (Router!AssetViolations reads it).
fn builtin_of(raw: &[u8]) -> &'static str {
    let body = match raw.windows(4).position(|w| w == b"\r\n\r\n") {
        Some(p) => &raw[p + 4..],
        None => return "",
    };
    let assets: [(&'static str, &'static [u8]); 5] = [
        ("index", include_bytes!("/repo/src/app/controller/index/index.html")),
        ("style", include_bytes!("/repo/src/app/controller/style/style.css")),
        ("script", include_bytes!("/repo/src/app/controller/script/script.js")),
        ("favicon", include_bytes!("/repo/src/app/controller/favicon/favicon.svg")),
        ("404", include_bytes!("/repo/src/app/controller/not_found/404.html")),
    ];
    for (name, bytes) in assets {
        if body == bytes {
            return name;
        }
    }
    ""
}

/// the same request through the real binary on a loopback socket (production entry point only)
fn serve_one_wire(q: &Value, method: &str, obs_mode: &str, addr: std::net::SocketAddr) -> Value {
    let bytes = request_bytes(q, method);
    let raw = crate::d_wire::exchange(addr, &bytes, std::time::Duration::from_secs(5)).unwrap_or_default();
    let mut r = project(&raw, obs_mode);
    r["outcome"] = json!(if raw.is_empty() { "no_response" } else { "ok" });
    r["builtin"] = json!(builtin_of(&raw));
    let mut qq = q.clone();
    qq["method"] = json!(method);
    qq["entry"] = json!("prod");
    json!({"ev":"Serve","q":qq,"r":r,"target":target_of(q),"surface":"wire"})
}

fn serve_one(q: &Value, method: &str, obs_mode: &str) -> Value {
    let bytes = request_bytes(q, method);
    let (mock, wire) = Mock::new(bytes);
    let ran = if q["entry"].as_str().unwrap_or("prod") == "legacy" { run_legacy(mock, wire) } else { run_prod(mock, wire, 10000) };
    let mut r = project(&ran.raw, obs_mode);
    r["outcome"] = json!(ran.outcome);
    r["builtin"] = json!(builtin_of(&ran.raw));
    if ran.outcome == "panic" {
        r["loc"] = json!(ran.loc);
        r["msg"] = json!(ran.msg);
    }
    let mut qq = q.clone();
    qq["method"] = json!(method);
    json!({"ev":"Serve","q":qq,"r":r,"target":target_of(q)})
}

fn cfg_default() -> Value {
    // the harness process runs with the documented defaults (entry_point::set_default_values)
    json!({"all": true, "origins": [], "creds": false, "methods": "", "headers": "", "headers_b": [], "expose": "", "maxage": "86400"})
}

pub fn run(o: &Opts) -> i32 {
    let scratch = PathBuf::from(o.req("scratch"));
    let obs_mode = o.get("obs").unwrap_or("full").to_string();
    let triple = o.get("triple").is_some();
    let stats = o.get("stats").is_some();
    let rewrite = o.get("rewrite").is_some();
    let wire_bin: Option<String> = o.get("bin").map(|s| s.to_string());
    crate::d_wire::set_logdir(&scratch);
    let mut out = Out::create(o.req("out"));
    let mut worlds: BTreeMap<u64, Value> = BTreeMap::new();
    for w in read_ndjson(o.req("worlds")) {
        worlds.insert(w["id"].as_u64().unwrap(), w);
    }
    let mut by_world: BTreeMap<u64, Vec<Value>> = BTreeMap::new();
    for c in read_ndjson(o.req("cases")) {
        by_world.entry(c["w"].as_u64().unwrap()).or_default().push(c);
    }
    rws::entry_point::set_default_values();
    let original_cwd = std::env::current_dir().unwrap();
    // every request runs on one named thread (Log::request_response unwraps the thread name)
    let res = on_named_thread("0", 8 << 20, move || {
        for (wid, cases) in by_world.iter() {
            let w = match worlds.get(wid) {
                Some(w) => w,
                None => {
                    eprintln!("case refers to unknown world {}", wid);
                    return 2;
                }
            };
            let (_top, root) = materialise(w, &scratch);
            // "@ABSTOP@" inside a segment stands for the absolute path of this world's top directory (without the leading
            // slash): targets that name a planted secret by its absolute location, in whatever spelling precedes the token
            let abstop = _top.to_string_lossy().trim_start_matches('/').to_string();
            let cases: Vec<Value> = cases.iter().map(|c| {
                let mut c2 = c.clone();
                if let Some(segs) = c2["segs"].as_array_mut() {
                    for sg in segs.iter_mut() {
                        if let Some(t) = sg.as_str() {
                            if t.contains("@ABSTOP@") {
                                *sg = json!(t.replace("@ABSTOP@", &abstop));
                            }
                        }
                    }
                }
                c2
            }).collect();
            let cases = &cases;
            std::env::set_current_dir(&root).expect("chdir");
            out.emit(&json!({"ev":"Mount","world":w,"cfg":cfg_default()}));
            if let Some(bin) = &wire_bin {
                // wire surface: the real binary started in this root; every production-entry case goes over a socket
                let port = crate::d_wire::free_port();
                let addr: std::net::SocketAddr = format!("127.0.0.1:{}", port).parse().unwrap();
                let srv = match crate::d_wire::Srv::start(bin, &root, &[], &[format!("--port={}", port), "--thread-count=4".to_string()], &[addr], None, &format!("w{}", wid)) {
                    Ok(s) => s,
                    Err(e) => {
                        eprintln!("start failed: {}", e);
                        return 2;
                    }
                };
                for pass in 0..(if rewrite { 2 } else { 1 }) {
                    if pass == 1 {
                        let w2 = rewrite_in_place(w, &scratch);
                        out.emit(&json!({"ev":"Mount","world":w2,"cfg":cfg_default()}));
                    }
                    for c in cases.iter() {
                        if c["entry"].as_str().unwrap_or("prod") != "prod" {
                            continue;
                        }
                        if triple {
                            for m in ["GET", "HEAD", "OPTIONS"] {
                                out.emit(&serve_one_wire(c, m, &obs_mode, addr));
                            }
                        } else {
                            let m = c["method"].as_str().unwrap_or("GET").to_string();
                            out.emit(&serve_one_wire(c, &m, &obs_mode, addr));
                        }
                    }
                }
                srv.stop();
                continue;
            }
            if stats {
                let mut seen = HashSet::new();
                for c in cases.iter() {
                    let k = c["segs"].to_string();
                    if seen.insert(k) {
                        out.emit(&stat_event(&root, &c["segs"]));
                    }
                }
            }
            for pass in 0..(if rewrite { 2 } else { 1 }) {
                if pass == 1 {
                    let w2 = rewrite_in_place(w, &scratch);
                    out.emit(&json!({"ev":"Mount","world":w2,"cfg":cfg_default()}));
                }
                for c in cases.iter() {
                    if triple {
                        for m in ["GET", "HEAD", "OPTIONS"] {
                            out.emit(&serve_one(c, m, &obs_mode));
                        }
                    } else {
                        let m = c["method"].as_str().unwrap_or("GET").to_string();
                        out.emit(&serve_one(c, &m, &obs_mode));
                    }
                }
            }
        }
        std::env::set_current_dir(&original_cwd).ok();
        let n = out.n;
        out.finish();
        eprintln!("serve: {} events", n);
        0
    });
    res.unwrap_or(2)
}

// ----------------------------------------------------------------------------- random worlds (record direction)

fn ext_of(name: &str) -> String {
    match name.rfind('.') {
        Some(i) if i > 0 => name[i + 1..].to_string(),
        _ => String::new(),
    }
}

/// Seeded random worlds and paths beyond the hand-written menu: deeper trees, non-ASCII names, more links.
/// Emits worlds and cases in the same format TLC does, so they go through the same pipeline.
pub fn random_worlds(o: &Opts) -> i32 {
    let seed = o.num("seed", 1);
    let count = o.num("count", 4);
    let cls = o.get("cls").unwrap_or("pat").to_string(); // content class of the files inside the root
    let mut rng = rand::rngs::StdRng::seed_from_u64(seed);
    let mut wout = Out::create(o.req("worlds-out"));
    let mut cout = Out::create(o.req("cases-out"));
    let names_file = ["a.txt", "data.json", "pic.png", "m.min.js", "noext", "naïve.html", "日本.txt", "x.tar.gz", "Q.PDF", "p.html", "s.css", "f.woff2"];
    let names_dir = ["d1", "d2", "sub.dir", "ünï", "zz", "..data", "v1..v2", "...", "a..", ".hidden.d"];
    for wi in 0..count {
        let id = 1000 + wi;
        let mut nodes: Vec<Value> = vec![];
        let dir = |p: usize, name: &str| json!({"parent":p,"name":name,"kind":"dir","abs":false,"tsegs":[],"len":0,"key":0,"cls":"none","ext":"","extl":"","stem":""});
        nodes.push(dir(1, "top"));
        // outside part: secrets at the top and beside the root
        let depth = rng.gen_range(1..=3usize);
        let mut par = 1usize;
        let mut key = 0u64;
        for d in 0..depth {
            nodes.push(json!({"parent":par,"name":format!("s{}", d),"kind":"file","abs":false,"tsegs":[],"len":40,"key":key,"cls":"secret","ext":"","extl":"","stem":""}));
            key += 1;
            if d + 1 < depth {
                nodes.push(dir(par, &format!("l{}", d + 1)));
                par = nodes.len();
            }
        }
        nodes.push(dir(par, "root"));
        let root = nodes.len();
        // inside part
        let mut dirs = vec![root];
        let mut files: Vec<usize> = vec![];
        let total = rng.gen_range(6..30usize);
        let mut pkey = 1u64;
        for _ in 0..total {
            let p = dirs[rng.gen_range(0..dirs.len())];
            let r = rng.gen_range(0..10);
            let existing: HashSet<String> = nodes.iter().filter(|n| n["parent"].as_u64() == Some(p as u64)).map(|n| n["name"].as_str().unwrap().to_string()).collect();
            if r < 3 && dirs.len() < 8 {
                let name = names_dir[rng.gen_range(0..names_dir.len())];
                if existing.contains(name) {
                    continue;
                }
                nodes.push(dir(p, name));
                dirs.push(nodes.len());
                let me = nodes.len();
                nodes.push(json!({"parent":me,"name":"zqzq.bin","kind":"file","abs":false,"tsegs":[],"len":3,"key":pkey % 200,"cls":cls,"ext":"bin","extl":"bin","stem":""}));
                pkey += 1;
            } else if r < 9 {
                let name = if rng.gen_range(0..6) == 0 { "index.html" } else { names_file[rng.gen_range(0..names_file.len())] };
                if existing.contains(name) {
                    continue;
                }
                let len = [0u64, 1, 2, 100, 255, 256, 1000, 4096, 8191, 8192, 8193, 9999, 10000, 10001, 20000][rng.gen_range(0..15)];
                let ext = ext_of(name);
                let stem = if ext == "html" { name[..name.len() - 5].to_string() } else { String::new() };
                nodes.push(json!({"parent":p,"name":name,"kind":"file","abs":false,"tsegs":[],"len":len,"key":pkey % 200,"cls":cls,
                                  "ext":ext,"extl":ext.to_lowercase(),"stem":stem}));
                pkey += 1;
                files.push(nodes.len());
            } else if !files.is_empty() {
                // a link in p to a file in the same directory (relative target) or to a sibling directory
                let name = format!("ln{}", nodes.len());
                let same: Vec<usize> = files.iter().copied().filter(|f| nodes[f - 1]["parent"].as_u64() == Some(p as u64)).collect();
                if let Some(f) = same.first() {
                    let t = nodes[f - 1]["name"].as_str().unwrap().to_string();
                    nodes.push(json!({"parent":p,"name":name,"kind":"link","abs":false,"tsegs":[t],"len":0,"key":0,"cls":"none","ext":"","extl":"","stem":""}));
                }
            }
        }
        nodes.push(json!({"parent":root,"name":"zqzq.bin","kind":"file","abs":false,"tsegs":[],"len":3,"key":7,"cls":cls,"ext":"bin","extl":"bin","stem":""}));
        let w = json!({"id": id, "root": root, "ascii": cls == "ascii", "nodes": nodes});
        wout.emit(&w);
        // paths: every inside node, with variants; climbing targets towards every secret
        let nodes = w["nodes"].as_array().unwrap();
        let path_of = |n: usize| -> Vec<String> {
            let mut v = vec![];
            let mut c = n;
            while c != root && c != 1 {
                v.push(nodes[c - 1]["name"].as_str().unwrap().to_string());
                c = nodes[c - 1]["parent"].as_u64().unwrap() as usize;
            }
            v.reverse();
            v
        };
        let inside = |n: usize| -> bool {
            let mut c = n;
            loop {
                if c == root {
                    return true;
                }
                if c == 1 {
                    return false;
                }
                c = nodes[c - 1]["parent"].as_u64().unwrap() as usize;
            }
        };
        let no_range = json!({"present":false,"unit_ok":true,"ws":false,"style":"plain","specs":[]});
        let mut emit = |segs: Vec<String>, query: &str, frag: &str| {
            cout.emit(&json!({"w":id,"entry":"prod","method":"GET","lead":"/","segs":segs,"query":query,"frag":frag,
                              "range":no_range,"has_origin":false,"origin":"","preflight":false}));
        };
        for n in 2..=nodes.len() {
            if n == root || !inside(n) {
                continue;
            }
            let p = path_of(n);
            emit(p.clone(), "", "");
            let mut q = p.clone();
            q.push(String::new());
            emit(q, "", "");
            emit(p.clone(), "?v=1", "#x");
            let mut miss = p.clone();
            let last = miss.len() - 1;
            miss[last] = format!("nx-{}", miss[last]);
            emit(miss, "", "");
            let stem = nodes[n - 1]["stem"].as_str().unwrap_or("");
            if !stem.is_empty() {
                let mut h = p.clone();
                let l = h.len() - 1;
                h[l] = stem.to_string();
                emit(h, "", "");
            }
        }
        for up in 1..=depth + 1 {
            for s in 0..depth {
                let mut segs: Vec<String> = (0..up).map(|_| "..".to_string()).collect();
                segs.push(format!("s{}", s));
                emit(segs.clone(), "", "");
                let mut detour = vec!["zz".to_string(), "..".to_string()];
                detour.extend(segs);
                emit(detour, "", "");
            }
        }
        // climbing THROUGH every directory inside the root (their names include ones that contain ".." without being it)
        for n in 2..=nodes.len() {
            if n == root || !inside(n) || nodes[n - 1]["kind"] != "dir" {
                continue;
            }
            let p = path_of(n);
            for up in 1..=depth + 1 {
                let mut segs = p.clone();
                segs.extend((0..p.len() + up).map(|_| "..".to_string()));
                segs.push(format!("s{}", (depth + 1 - up).min(depth - 1)));
                emit(segs, "", "");
            }
        }
    }
    wout.finish();
    cout.finish();
    0
}
