//! C07: the real ThreadPool driven through TLC-generated schedules (replay) and observed free-running.
//!
//! replay: `--cases FILE` holds behaviours {"n":N,"kind":[..],"steps":[{"a","w","t"}..]} emitted by Gen_Pool.
//!         All worker threads are held at the cfg(rws_verif) hook points; the controller lets exactly the
//!         thread named by the next step through its gate and waits for the hook that ends that critical
//!         section.  A step the code does not take within the timeout is recorded as Stall.
//! free:   `--free K` runs of the same configuration with seeded yields/sleeps injected at the hook points.
//! Output: one ndjson trace (Reset / Submit / Lock / Recv / Start / Finish / Stall / Quiesce) for Trace_Pool.
use crate::util::*;
use rand::{Rng, SeedableRng};
use rws::thread_pool::ThreadPool;
use rws::verif::{self, Point};
use serde_json::{json, Value};
use std::collections::HashMap;
use std::sync::atomic::{AtomicU64, AtomicUsize, Ordering};
use std::sync::{Arc, Condvar, Mutex};
use std::time::{Duration, Instant};

#[derive(Clone, Debug, PartialEq)]
enum Obs {
    Hook(Point, usize),
    TaskStart(usize, usize), // worker, task
    TaskEnd(usize, usize),
    RdvTimeout(usize),
}

struct State {
    gated: bool,
    permits: HashMap<(u8, usize), u32>, // (gate kind, id) -> tokens; kind 0..3 = hook points, 9 = task gate
    log: Vec<Obs>,
    cursor: usize, // controller's read position in log
    rdv_arrived: usize,
    released_long: bool,
}

struct Ctl {
    st: Mutex<State>,
    cv: Condvar,
    n: usize,
    nstart: AtomicUsize,
    nfin: AtomicUsize,
    perturb: AtomicU64, // 0 = no perturbation, else seed
}

fn gate_kind(p: Point) -> Option<u8> {
    match p {
        Point::BeforeLock => Some(0),
        Point::LockAcquired => Some(1),
        Point::Received => Some(2),
        _ => None,
    }
}

impl Ctl {
    fn new(n: usize, gated: bool, perturb: u64) -> Arc<Ctl> {
        Arc::new(Ctl {
            st: Mutex::new(State {
                gated,
                permits: HashMap::new(),
                log: vec![],
                cursor: 0,
                rdv_arrived: 0,
                released_long: false,
            }),
            cv: Condvar::new(),
            n,
            nstart: AtomicUsize::new(0),
            nfin: AtomicUsize::new(0),
            perturb: AtomicU64::new(perturb),
        })
    }

    fn jitter(&self, salt: u64) {
        let p = self.perturb.load(Ordering::Relaxed);
        if p == 0 {
            return;
        }
        // cheap deterministic-ish mixing; the interleaving itself is what varies
        let x = self.perturb.fetch_add(0x9E3779B97F4A7C15, Ordering::Relaxed) ^ salt.wrapping_mul(0xBF58476D1CE4E5B9);
        match (x >> 33) % 8 {
            0 | 1 => std::thread::yield_now(),
            2 => std::thread::sleep(Duration::from_micros(20 + (x >> 40) % 200)),
            3 => std::thread::sleep(Duration::from_micros(500 + (x >> 40) % 1500)),
            _ => {}
        }
    }

    /// hook callback (worker and submitter threads)
    fn at(&self, p: Point, id: usize) {
        if p == Point::BeforeSend || p == Point::AfterSend || p == Point::JobStart {
            return; // the submitter is the controller itself: logged there
        }
        if p == Point::BeforeLock {
            worker_map().lock().unwrap().insert(std::thread::current().id(), id);
        }
        self.jitter(id as u64 * 7 + p as u64);
        let mut st = self.st.lock().unwrap();
        st.log.push(Obs::Hook(p, id));
        self.cv.notify_all();
        if let Some(k) = gate_kind(p) {
            while st.gated && *st.permits.get(&(k, id)).unwrap_or(&0) == 0 {
                st = self.cv.wait(st).unwrap();
            }
            if st.gated {
                *st.permits.get_mut(&(k, id)).unwrap() -= 1;
            }
        }
        drop(st);
        self.jitter(id as u64 * 13 + p as u64);
    }

    fn permit(&self, k: u8, id: usize) {
        let mut st = self.st.lock().unwrap();
        *st.permits.entry((k, id)).or_insert(0) += 1;
        self.cv.notify_all();
    }

    /// wait until an observation satisfying `pred` appears at or after the cursor; everything skipped is returned
    fn wait_for(&self, pred: impl Fn(&Obs) -> bool, timeout: Duration) -> (Option<Obs>, Vec<Obs>) {
        let deadline = Instant::now() + timeout;
        let mut st = self.st.lock().unwrap();
        let mut skipped = vec![];
        loop {
            while st.cursor < st.log.len() {
                let o = st.log[st.cursor].clone();
                st.cursor += 1;
                if pred(&o) {
                    return (Some(o), skipped);
                }
                skipped.push(o);
            }
            let now = Instant::now();
            if now >= deadline {
                return (None, skipped);
            }
            let (g, _) = self.cv.wait_timeout(st, deadline - now).unwrap();
            st = g;
        }
    }

    fn ungate(&self) {
        let mut st = self.st.lock().unwrap();
        st.gated = false;
        st.released_long = true;
        self.cv.notify_all();
    }
}

/// Which worker the current thread is: learnt from the hook points (every worker passes BeforeLock with its id before
/// it can run a task), so that it does not depend on how the pool names its threads.
fn worker_map() -> &'static Mutex<HashMap<std::thread::ThreadId, usize>> {
    static MAP: std::sync::OnceLock<Mutex<HashMap<std::thread::ThreadId, usize>>> = std::sync::OnceLock::new();
    MAP.get_or_init(|| Mutex::new(HashMap::new()))
}
fn worker_of_current_thread() -> usize {
    if let Some(w) = worker_map().lock().unwrap().get(&std::thread::current().id()) {
        return *w;
    }
    std::thread::current().name().and_then(|s| s.parse().ok()).unwrap_or(usize::MAX)
}

/// the closure submitted for task `t` (1-based id) of the given kind
fn make_task(ctl: Arc<Ctl>, t: usize, kind: String, flavour: String, rdv_timeout: Duration) -> impl FnOnce() + Send + 'static {
    move || {
        let w = worker_of_current_thread();
        ctl.nstart.fetch_add(1, Ordering::SeqCst);
        let my_arrival;
        {
            let mut st = ctl.st.lock().unwrap();
            st.log.push(Obs::TaskStart(w, t));
            if kind == "rdv" {
                st.rdv_arrived += 1;
            }
            my_arrival = st.rdv_arrived;
            ctl.cv.notify_all();
            // task gate (replay mode): Finish(w) is a step of the schedule
            while st.gated && *st.permits.get(&(9, t)).unwrap_or(&0) == 0 {
                st = ctl.cv.wait(st).unwrap();
            }
            if st.gated {
                *st.permits.get_mut(&(9, t)).unwrap() -= 1;
            }
        }
        if kind == "rdv" {
            // reusable barrier of N parties: generation of the k-th arrival is (k-1)/N
            let need = ((my_arrival - 1) / ctl.n + 1) * ctl.n;
            let deadline = Instant::now() + rdv_timeout;
            let mut st = ctl.st.lock().unwrap();
            while st.rdv_arrived < need {
                let now = Instant::now();
                if now >= deadline {
                    st.log.push(Obs::RdvTimeout(t));
                    ctl.cv.notify_all();
                    break;
                }
                let (g, _) = ctl.cv.wait_timeout(st, deadline - now).unwrap();
                st = g;
            }
        } else if kind == "long" {
            // free mode: returns when the controller releases long tasks (or after a while)
            let deadline = Instant::now() + rdv_timeout;
            let mut st = ctl.st.lock().unwrap();
            while !st.gated && !st.released_long {
                let now = Instant::now();
                if now >= deadline {
                    break;
                }
                let (g, _) = ctl.cv.wait_timeout(st, deadline - now).unwrap();
                st = g;
            }
        }
        ctl.jitter(t as u64 * 31);
        // C06: what the job does "inside": a connection through the real Server::process over a scripted transport
        if flavour.starts_with("conn_") {
            run_connection_flavour(&flavour);
        }
        ctl.nfin.fetch_add(1, Ordering::SeqCst);
        {
            let mut st = ctl.st.lock().unwrap();
            st.log.push(Obs::TaskEnd(w, t));
            ctl.cv.notify_all();
        }
        if kind == "panic" {
            panic!("scripted job failure (task {})", t);
        }
    }
}

#[derive(Copy, Clone)]
struct PanicApp;
impl rws::application::Application for PanicApp {
    fn execute(&self, _r: &rws::request::Request, _c: &rws::server::ConnectionInfo) -> Result<rws::response::Response, String> {
        panic!("scripted handler panic")
    }
}

/// one connection as the accept loop would hand it to a worker (same call as in Server::run)
fn run_connection_flavour(flavour: &str) {
    use crate::http::*;
    use rws::core::New;
    let valid = b"GET /nx.html HTTP/1.1\r\nHost: localhost\r\n\r\n".to_vec();
    let (mut mock, _wire) = match flavour {
        "conn_garbage" => Mock::new(vec![0xff, 0xfe, 0x00, 0x0a, 0x0a]),
        "conn_empty" => Mock::new(vec![]),
        "conn_bad_length" => Mock::new(b"GET / HTTP/1.1\r\nContent-Length: a\r\n\r\n".to_vec()),
        "conn_no_path" => Mock::new(b"GET x HTTP/1.1\r\n\r\n".to_vec()),
        "conn_many_lines" => Mock::new([b"GET / HTTP/1.1\r\n".to_vec(), b"a\n".repeat(4990)].concat()),
        _ => Mock::new(valid),
    };
    match flavour {
        "conn_read_err" => mock.read_error = true,
        "conn_write_err" => mock.write_script = vec![WriteStep::Error],
        "conn_write_err_mid" => mock.write_script = vec![WriteStep::Accept(17), WriteStep::Error],
        "conn_flush_err" => mock.flush_error = true,
        "conn_short" => mock.write_script = (0..100000).map(|_| WriteStep::Accept(3)).collect(),
        _ => {}
    }
    // exactly the closure body of Server::run: errors are printed, panics propagate to the worker loop
    let boxed_process = if flavour == "conn_handler_panic" {
        rws::server::Server::process(mock, connection_info(10000), PanicApp)
    } else {
        rws::server::Server::process(mock, connection_info(10000), rws::app::App::new())
    };
    if boxed_process.is_err() {
        eprintln!("{}", boxed_process.err().unwrap());
    }
}

fn install(ctl: &Arc<Ctl>) {
    let c = ctl.clone();
    verif::install(Arc::new(move |p, id, _arg| c.at(p, id)));
}

fn kinds_of(v: &Value) -> Vec<String> {
    v.as_array().map(|a| a.iter().map(|x| x.as_str().unwrap_or("instant").to_string()).collect()).unwrap_or_default()
}

/// Drive the real pool through one TLC behaviour.
fn replay(case: &Value, flavours: &[String], out: &mut Out, step_timeout: Duration) -> bool {
    let n = case["n"].as_u64().unwrap() as usize;
    let kinds = kinds_of(&case["kind"]);
    out.emit(&json!({"ev":"Reset","mode":"replay","n":n,"kind":kinds}));
    let ctl = Ctl::new(n, true, 0);
    install(&ctl);
    let pool = ThreadPool::new(n);
    let mut cur: HashMap<usize, usize> = HashMap::new(); // worker (1-based) -> task started
    let mut stalled = false;
    let unexpected = |skipped: Vec<Obs>, out: &mut Out| {
        for o in skipped {
            match o {
                Obs::Hook(Point::BeforeLock, _) => {} // arrival at the first gate is not a step
                Obs::TaskEnd(_, _) => {}
                other => out.emit(&json!({"ev":"Unexpected","what":format!("{:?}", other)})),
            }
        }
    };
    for s in case["steps"].as_array().unwrap() {
        let a = s["a"].as_str().unwrap();
        let w = s["w"].as_u64().unwrap() as usize; // 1-based in the spec
        let t = s["t"].as_u64().unwrap() as usize;
        let id = w.wrapping_sub(1);
        let (got, skipped) = match a {
            "Submit" => {
                let kind = kinds[t - 1].clone();
                let flavour = flavours.get(t - 1).cloned().unwrap_or_default();
                pool.execute(make_task(ctl.clone(), t, kind, flavour, Duration::from_secs(20)));
                out.emit(&json!({"ev":"Submit","t":t}));
                continue;
            }
            "Lock" => {
                ctl.permit(0, id);
                ctl.wait_for(|o| *o == Obs::Hook(Point::LockAcquired, id), step_timeout)
            }
            "Recv" => {
                ctl.permit(1, id);
                ctl.wait_for(|o| *o == Obs::Hook(Point::Received, id), step_timeout)
            }
            "Start" => {
                ctl.permit(2, id);
                ctl.wait_for(|o| matches!(o, Obs::TaskStart(ww, _) if *ww == id), step_timeout)
            }
            "Finish" => {
                let task = *cur.get(&w).unwrap_or(&t);
                ctl.permit(9, task);
                ctl.wait_for(|o| *o == Obs::Hook(Point::JobDone, id), step_timeout)
            }
            _ => continue,
        };
        unexpected(skipped, out);
        match got {
            None => {
                out.emit(&json!({"ev":"Stall","a":a,"w":w,"t":t}));
                stalled = true;
                break;
            }
            Some(Obs::TaskStart(_, task)) => {
                cur.insert(w, task);
                out.emit(&json!({"ev":"Start","w":w,"t":task}));
            }
            Some(_) => {
                out.emit(&json!({"ev":a,"w":w,"t":t}));
            }
        }
    }
    if !stalled {
        // drain: let everything run freely for a moment; anything that still starts is a duplicate / leftover
        ctl.ungate();
        std::thread::sleep(Duration::from_millis(30));
        let (_, skipped) = ctl.wait_for(|_| false, Duration::from_millis(1));
        for o in skipped {
            if let Obs::TaskStart(ww, tt) = o {
                out.emit(&json!({"ev":"Start","w":ww + 1,"t":tt}));
            }
        }
        out.emit(&json!({"ev":"Quiesce","done":true,
            "nstart":ctl.nstart.load(Ordering::SeqCst),"nfin":ctl.nfin.load(Ordering::SeqCst)}));
    }
    // (after a stall the threads stay parked at their gates: releasing them would let them report into the next run)
    // the pool has no shutdown: dropping the sender would make the workers spin on a closed channel
    std::mem::forget(pool);
    stalled
}

/// Let the real pool run on its own with perturbed timing, log what the hooks see.
fn free_run(n: usize, kinds: &[String], flavours: &[String], seed: u64, out: &mut Out, quiesce_timeout: Duration, idle: (usize, u64)) -> bool {
    out.emit(&json!({"ev":"Reset","mode":"free","n":n,"kind":kinds,"seed":seed}));
    let ctl = Ctl::new(n, false, seed | 1);
    install(&ctl);
    let mut rng = rand::rngs::StdRng::seed_from_u64(seed);
    let pool = ThreadPool::new(n);
    let total = kinds.len();
    for t in 1..=total {
        if idle.1 > 0 && t == idle.0 + 1 {
            // idle time as a dimension: wait until what was submitted so far has finished, leave the pool alone for a while,
            // then go on submitting (a worker that retires or a queue that closes after an idle period shows up as lost capacity)
            let deadline = Instant::now() + quiesce_timeout;
            while ctl.nfin.load(Ordering::SeqCst) < idle.0 && Instant::now() < deadline {
                std::thread::sleep(Duration::from_millis(1));
            }
            std::thread::sleep(Duration::from_millis(idle.1));
        }
        {
            // Submit is logged before send (BeforeSend): the job is not yet visible to any worker
            let mut st = ctl.st.lock().unwrap();
            st.log.push(Obs::Hook(Point::BeforeSend, t));
        }
        pool.execute(make_task(ctl.clone(), t, kinds[t - 1].clone(), flavours.get(t - 1).cloned().unwrap_or_default(), quiesce_timeout));
        match rng.gen_range(0..6) {
            0 => std::thread::sleep(Duration::from_micros(rng.gen_range(10..800))),
            1 => std::thread::yield_now(),
            _ => {}
        }
        if rng.gen_range(0..total.max(1)) == 0 {
            let mut st = ctl.st.lock().unwrap();
            st.released_long = true;
            ctl.cv.notify_all();
        }
    }
    {
        let mut st = ctl.st.lock().unwrap();
        st.released_long = true;
        ctl.cv.notify_all();
    }
    // wait for quiescence: all closures returned and every worker back at (or past) its JobDone
    let deadline = Instant::now() + quiesce_timeout;
    let mut done = false;
    while Instant::now() < deadline {
        let st = ctl.st.lock().unwrap();
        let jobdone = st.log.iter().filter(|o| matches!(o, Obs::Hook(Point::JobDone, _))).count();
        drop(st);
        if ctl.nfin.load(Ordering::SeqCst) >= total && jobdone >= total {
            done = true;
            break;
        }
        std::thread::sleep(Duration::from_micros(300));
    }
    // Settle: after its last JobDone every worker goes back to the receiver lock; one acquires it and blocks in recv,
    // the others block on the lock.  Wait until those final hook events are in THIS run's log -- a worker that is
    // descheduled here (loaded machine) would otherwise report its last Lock into the next run's log (a false alarm
    // seen once under load: "unexplained event: Lock" at the start of the following configuration).
    if done {
        // (a pool that lost a worker never settles: wait long once, then briefly)
        static SETTLE_FAILED: std::sync::atomic::AtomicBool = std::sync::atomic::AtomicBool::new(false);
        let settle_deadline = Instant::now() + if SETTLE_FAILED.load(Ordering::SeqCst) { Duration::from_millis(50) } else { Duration::from_secs(20) };
        loop {
            let st = ctl.st.lock().unwrap();
            let count = |pt: Point| st.log.iter().filter(|o| matches!(o, Obs::Hook(q, _) if *q == pt)).count();
            let settled = count(Point::BeforeLock) >= count(Point::JobDone) + n && count(Point::LockAcquired) >= count(Point::Received) + 1;
            drop(st);
            if settled {
                break;
            }
            if Instant::now() >= settle_deadline {
                SETTLE_FAILED.store(true, Ordering::SeqCst);
                break;
            }
            std::thread::sleep(Duration::from_micros(300));
        }
    }
    std::thread::sleep(Duration::from_millis(2));
    let st = ctl.st.lock().unwrap();
    let mut last_task: HashMap<usize, usize> = HashMap::new();
    for o in st.log.iter() {
        match o {
            Obs::Hook(Point::BeforeSend, t) => out.emit(&json!({"ev":"Submit","t":t})),
            Obs::Hook(Point::LockAcquired, id) => out.emit(&json!({"ev":"Lock","w":id + 1})),
            Obs::Hook(Point::Received, id) => out.emit(&json!({"ev":"Recv","w":id + 1})),
            Obs::Hook(Point::JobDone, id) => {
                out.emit(&json!({"ev":"Finish","w":id + 1,"t":last_task.get(id).copied().unwrap_or(0)}))
            }
            Obs::TaskStart(w, t) => {
                last_task.insert(*w, *t);
                out.emit(&json!({"ev":"Start","w":w + 1,"t":t}))
            }
            Obs::RdvTimeout(t) => out.emit(&json!({"ev":"RdvTimeout","t":t})),
            _ => {}
        }
    }
    drop(st);
    out.emit(&json!({"ev":"Quiesce","done":done,
        "nstart":ctl.nstart.load(Ordering::SeqCst),"nfin":ctl.nfin.load(Ordering::SeqCst)}));
    std::mem::forget(pool);
    done
}

pub fn run(o: &Opts) -> i32 {
    let mut out = Out::create(o.req("out"));
    let step_timeout = Duration::from_millis(o.num("step-timeout-ms", 3000));
    let mut n = o.num("n", 0) as usize;
    let mut kinds: Vec<String> = o.get("kind").map(|s| s.split(',').filter(|x| !x.is_empty()).map(|x| x.to_string()).collect()).unwrap_or_default();
    let flavours: Vec<String> = o.get("flavour").map(|s| s.split(',').map(|x| x.to_string()).collect()).unwrap_or_default();
    let mut replayed = 0;
    if let Some(cases) = o.get("cases") {
        for c in read_ndjson(cases) {
            n = c["n"].as_u64().unwrap() as usize;
            kinds = kinds_of(&c["kind"]);
            let stalled = replay(&c, &flavours, &mut out, step_timeout);
            replayed += 1;
            if stalled {
                // a refusal leaves threads of this pool parked for good; stop this configuration here
                // (the Stall event is in the trace) rather than let stale threads report into later runs
                let events = out.n;
                out.finish();
                eprintln!("pool: n={} tasks={} replayed={} STALLED events={}", n, kinds.len(), replayed, events);
                return 0;
            }
        }
    }
    let free = o.num("free", 0);
    let seed = o.num("seed", 1);
    for i in 0..free {
        let idle = (o.num("idle-after", 0) as usize, o.num("idle-ms", 0));
        let done = free_run(n, &kinds, &flavours, seed.wrapping_mul(1000003).wrapping_add(i), &mut out, Duration::from_millis(o.num("quiesce-timeout-ms", 4000)), idle);
        if !done {
            break; // stuck threads of this pool would report into later runs
        }
    }
    verif::uninstall();
    let events = out.n;
    out.finish();
    eprintln!("pool: n={} tasks={} replayed={} free={} events={}", n, kinds.len(), replayed, free, events);
    0
}
