//! rwsv — conformance harness binding the TLA+ specification of rws to the real code.
//! It contains no expectations of its own: it concretises abstract cases produced by TLC,
//! drives the real code (rebuilt from /repo's working tree with --cfg rws_verif), and projects
//! what happened into ndjson trace events that TLC validates against spec/Trace_*.tla.
mod util;
mod d_base64;
mod d_pool;
mod d_misc;
mod http;
mod d_serve;
mod d_conn;
mod d_cors;
mod d_wire;
mod d_codec;
mod d_json;
mod d_total;

fn main() {
    let args: Vec<String> = std::env::args().collect();
    if args.len() < 2 {
        eprintln!("usage: rwsv <domain> [--key value ...]");
        std::process::exit(2);
    }
    util::install_panic_hook();
    let opts = util::Opts::parse(&args[2..]);
    let rc = match args[1].as_str() {
        "base64" => d_base64::run(&opts),
        "pool" => d_pool::run(&opts),
        "mime" => d_misc::mime(&opts),
        "serve" => d_serve::run(&opts),
        "conn" => d_conn::run(&opts),
        "cors" => d_cors::run(&opts),
        "codec" => d_codec::run(&opts),
        "total" => d_total::run(&opts),
        "total-child" => d_total::child(&opts),
        "wire-history" => d_wire::history(&opts),
        "wire-conc" => d_wire::conc(&opts),
        "wire-fs" => d_wire::fs(&opts),
        "wire-config" => d_wire::config(&opts),
        "conn-child" => d_conn::child(&opts),
        "random-worlds" => d_serve::random_worlds(&opts),
        other => {
            eprintln!("unknown domain {}", other);
            2
        }
    };
    std::process::exit(rc);
}
