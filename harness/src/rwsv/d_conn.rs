//! Connection-level domain (C04, C05, C10): request documents from spec/Mutation.tla are concatenated into bytes and
//! sent through the production entry point Server::process over a scripted mock transport, on a named thread with
//! the workers' 2 MiB stack, in a CHILD process (a stack overflow aborts the process: the parent records it as
//! outcome "abort" for exactly that case and restarts after it).
//! Events for Trace_Conn: Begin / Read / Write / Flush / End.
use crate::http::*;
use crate::util::*;
use rws::app::App;
use rws::application::Application;
use rws::core::New;
use rws::header::Header;
use rws::mime_type::MimeType;
use rws::range::{ContentRange, Range};
use rws::request::Request;
use rws::response::{Response, STATUS_CODE_REASON_PHRASE};
use rws::server::{ConnectionInfo, Server};
use serde_json::{json, Value};
use std::io::{BufRead, Write};
use std::path::Path;

#[derive(Copy, Clone)]
struct ErrApp;
impl Application for ErrApp {
    fn execute(&self, _request: &Request, _connection: &ConnectionInfo) -> Result<Response, String> {
        Err("handler reported an error".to_string())
    }
}

/// a handler that answers with two byte ranges (multipart/byteranges path of the serialiser)
#[derive(Copy, Clone)]
struct MultiApp;
impl Application for MultiApp {
    fn execute(&self, request: &Request, _connection: &ConnectionInfo) -> Result<Response, String> {
        let header_list = Header::get_header_list(request);
        let part = |a: u64, b: u64, body: &[u8]| ContentRange {
            unit: Range::BYTES.to_string(),
            range: Range { start: a, end: b },
            size: "10".to_string(),
            body: body.to_vec(),
            content_type: MimeType::TEXT_PLAIN.to_string(),
        };
        Ok(Response::get_response(
            STATUS_CODE_REASON_PHRASE.n206_partial_content,
            Some(header_list),
            Some(vec![part(0, 1, b"ab"), part(4, 6, b"efg")]),
        ))
    }
}

pub fn render_doc(doc: &Value) -> Vec<u8> {
    let mut out: Vec<u8> = vec![];
    for t in doc.as_array().unwrap() {
        match t["k"].as_str().unwrap() {
            "s" => out.extend_from_slice(t["s"].as_str().unwrap().as_bytes()),
            "b" => out.extend_from_slice(&bytes_of(&t["b"])),
            "rep" => {
                out.extend_from_slice(t["p"].as_str().unwrap_or("").as_bytes());
                let s = t["s"].as_str().unwrap().as_bytes();
                for _ in 0..t["n"].as_u64().unwrap() {
                    out.extend_from_slice(s);
                }
            }
            "pad" => {
                let n = t["n"].as_u64().unwrap() as usize;
                while out.len() < n {
                    out.push(b'a');
                }
            }
            _ => {}
        }
    }
    out
}

/// Feedback tokens (k = "fb", s = rule, n = index): one header line derived from the server's OWN answer to the same request
/// without that line.  Rule "echo": a response header sent back as it came.  Rule "if": the conditional request header that
/// belongs to a validator in the answer, the validator's name keeping whatever suffix the server gave it
/// (Last-Modified<sfx> -> If-Modified-Since<sfx>, If-Unmodified-Since<sfx>; ETag<sfx> -> If-None-Match<sfx>, If-Match<sfx>;
/// Date<sfx> -> If-Modified-Since<sfx>), with the value as it came, one more, one less, 0 and a 23-digit number.
/// The n-th candidate (in header order) is rendered; nothing when there are fewer.
fn feedback_lines(hs: &Value, rule: &str) -> Vec<Vec<u8>> {
    let mut out = vec![];
    for h in hs.as_array().cloned().unwrap_or_default() {
        let name = h["n"].as_str().unwrap_or("").to_string();
        let value = h["v"].as_str().unwrap_or("").to_string();
        if name.is_empty() {
            continue;
        }
        if rule == "echo" {
            out.push(format!("{}: {}\r\n", name, value).into_bytes());
            continue;
        }
        let lower = name.to_ascii_lowercase();
        let derived: Vec<String> = if let Some(sfx) = lower.strip_prefix("last-modified") {
            let sfx = &name[name.len() - sfx.len()..];
            vec![format!("If-Modified-Since{}", sfx), format!("If-Unmodified-Since{}", sfx)]
        } else if let Some(sfx) = lower.strip_prefix("etag") {
            let sfx = &name[name.len() - sfx.len()..];
            vec![format!("If-None-Match{}", sfx), format!("If-Match{}", sfx)]
        } else if let Some(sfx) = lower.strip_prefix("date") {
            let sfx = &name[name.len() - sfx.len()..];
            vec![format!("If-Modified-Since{}", sfx)]
        } else {
            vec![]
        };
        let mut values = vec![value.clone()];
        if let Ok(x) = value.trim().parse::<u128>() {
            values.push((x + 1).to_string());
            values.push(x.saturating_sub(1).to_string());
        }
        values.push("0".to_string());
        values.push("99999999999999999999999".to_string());
        for d in derived {
            for v in &values {
                out.push(format!("{}: {}\r\n", d, v).into_bytes());
            }
        }
    }
    out
}

fn render_with_feedback(doc: &Value) -> Vec<u8> {
    let toks = doc.as_array().unwrap();
    if !toks.iter().any(|t| t["k"] == "fb") {
        return render_doc(doc);
    }
    // the answer to the request without the feedback line (feedback tokens render as nothing)
    let (mock, wire) = Mock::new(render_doc(doc));
    let _ = guarded(move || Server::process(mock, connection_info(10000), App::new()));
    let first = wire.lock().unwrap().accepted.clone();
    let hs = project(&first, "head")["hs"].clone();
    let mut out: Vec<u8> = vec![];
    for t in toks {
        if t["k"] == "fb" {
            let lines = feedback_lines(&hs, t["s"].as_str().unwrap_or("echo"));
            if let Some(l) = lines.get(t["n"].as_u64().unwrap_or(0) as usize) {
                out.extend_from_slice(l);
            }
        } else {
            out.extend_from_slice(&render_doc(&json!([t])));
        }
    }
    out
}

fn script_of(case: &Value, mock: &mut Mock) {
    let sc = &case["script"];
    let at = sc["at"].as_u64().unwrap_or(0) as usize;
    match sc["kind"].as_str().unwrap_or("unlimited") {
        "chunk" => {
            let c = sc["chunk"].as_u64().unwrap() as usize;
            mock.write_script = (0..200000).map(|_| WriteStep::Accept(c)).collect();
        }
        "short_first" => mock.write_script = vec![WriteStep::Accept(at)],
        "zero_first" => mock.write_script = vec![WriteStep::Accept(0)],
        "write_error" => {
            mock.write_script = if at == 0 { vec![WriteStep::Error] } else { vec![WriteStep::Accept(at), WriteStep::Error] }
        }
        "flush_error" => mock.flush_error = true,
        "read_error" => mock.read_error = true,
        _ => {}
    }
}

pub fn make_site(root: &Path) {
    std::fs::create_dir_all(root.join("docs/deep")).unwrap();
    let pat = |key: u64, len: u64| -> Vec<u8> { (0..len).map(|i| ((key + 131 * i + i / 251) % 256) as u8).collect() };
    std::fs::write(root.join("a.txt"), pat(3, 300)).unwrap();
    std::fs::write(root.join("docs/index.html"), pat(5, 700)).unwrap();
    std::fs::write(root.join("docs/deep/x.txt"), pat(7, 20)).unwrap();
}

fn run_case(i: usize, case: &Value, obs: &str, out: &mut dyn FnMut(&Value)) {
    let bytes = render_with_feedback(&case["doc"]);
    // the method as the server will read it: the first blank-delimited word of the rendered bytes (two mutations can cancel out:
    // the method token duplicated and the first copy emptied renders the original request)
    let method = {
        let end = bytes.iter().position(|b| *b == b' ' || *b == b'\r' || *b == b'\n').unwrap_or(bytes.len());
        let w = &bytes[..end];
        if !w.is_empty() && w.iter().all(|b| b.is_ascii_uppercase()) { String::from_utf8_lossy(w).to_string() } else { String::new() }
    };
    out(&json!({"ev":"Begin","i":i,"seed":case["seed"],"verdict":case["verdict"],"app":case["app"],"script":case["script"],
                "method":method,"muts":case["muts"],"req_len":bytes.len()}));
    let (mut mock, wire) = Mock::new(bytes);
    script_of(case, &mut mock);
    let app = case["app"].as_str().unwrap_or("builtin").to_string();
    let ran = {
        let w = wire.clone();
        let res = guarded(move || match app.as_str() {
            "err" => Server::process(mock, connection_info(10000), ErrApp),
            "multi" => Server::process(mock, connection_info(10000), MultiApp),
            _ => Server::process(mock, connection_info(10000), App::new()),
        });
        let g = w.lock().unwrap();
        let (outcome, msg, loc) = match res {
            Outcome::Done(Ok(())) => ("ok".to_string(), String::new(), String::new()),
            Outcome::Done(Err(e)) => ("err".to_string(), e, String::new()),
            Outcome::Panic { msg, loc } => ("panic".to_string(), msg, short_loc(&loc)),
        };
        Ran { outcome, msg, loc, raw: g.accepted.clone(), write_calls: g.write_calls.clone(), continues: g.continues.clone(), flush_at: g.flush_at.clone(), flushes: g.flushes }
    };
    let read_err = case["script"]["kind"] == "read_error";
    out(&json!({"ev":"Read","ok":!read_err}));
    // constant-chunk scripts produce thousands of identical calls: the trace carries them run-length encoded
    let mut j = 0;
    let calls = &ran.write_calls;
    // calls in the order the server made them: a flush is placed after the write calls that preceded it
    let flush_err = case["script"]["kind"] == "flush_error";
    let mut f = 0;
    while j < calls.len() {
        while f < ran.flush_at.len() && ran.flush_at[f] <= j {
            out(&json!({"ev":"Flush","ok":!flush_err}));
            f += 1;
        }
        let (off, acc) = calls[j];
        out(&json!({"ev":"Write","offered":off,"accepted":acc,"continues":ran.continues.get(j).copied().unwrap_or(true)}));
        j += 1;
    }
    while f < ran.flush_at.len() {
        out(&json!({"ev":"Flush","ok":!flush_err}));
        f += 1;
    }
    let mut r = project(&ran.raw, obs);
    r["outcome"] = json!(ran.outcome);
    let mut end = json!({"ev":"End","i":i,"outcome":ran.outcome,"r":r});
    if ran.outcome == "panic" {
        end["loc"] = json!(ran.loc);
        end["msg"] = json!(ran.msg);
    }
    if ran.outcome == "err" {
        end["msg"] = json!(ran.msg);
    }
    out(&end);
}

/// child: process cases [start, ..) appending to the trace, flushing after every event
pub fn child(o: &Opts) -> i32 {
    crate::http::SPIN_EXITS.store(true, std::sync::atomic::Ordering::SeqCst);
    let cases = read_ndjson(o.req("cases"));
    let start = o.num("start", 0) as usize;
    let obs = o.get("obs").unwrap_or("head").to_string();
    let root = o.req("root").to_string();
    let path = o.req("out").to_string();
    rws::entry_point::set_default_values();
    std::env::set_current_dir(&root).expect("chdir");
    let res = on_named_thread("0", 2 << 20, move || {
        let mut f = std::fs::OpenOptions::new().append(true).create(true).open(&path).expect("open trace");
        let mut emit = |v: &Value| {
            let mut line = serde_json::to_vec(v).unwrap();
            line.push(b'\n');
            f.write_all(&line).unwrap();
        };
        for (i, c) in cases.iter().enumerate().skip(start) {
            run_case(i, c, &obs, &mut emit);
        }
        0
    });
    res.unwrap_or(3)
}

/// parent: run the child, record aborts, restart after the aborting case
pub fn run(o: &Opts) -> i32 {
    let cases_path = o.req("cases").to_string();
    let ncases = read_ndjson(&cases_path).len();
    let out = o.req("out").to_string();
    let scratch = o.req("scratch").to_string();
    let root = format!("{}/site", scratch);
    make_site(Path::new(&root));
    std::fs::write(&out, b"").unwrap();
    let exe = std::env::current_exe().unwrap();
    let mut start = 0usize;
    let mut aborts = 0;
    let mut timeouts = 0;
    while start < ncases {
        let mut child = std::process::Command::new(&exe)
            .args(["conn-child", "--cases", &cases_path, "--out", &out, "--root", &root, "--start", &start.to_string(),
                   "--obs", o.get("obs").unwrap_or("head")])
            .stdout(std::process::Stdio::null())
            .stderr(std::process::Stdio::null())
            .spawn()
            .expect("spawn child");
        // watchdog: a child that records nothing for STALL seconds is stuck inside one connection
        const STALL: u64 = 45;
        let mut last_len = 0u64;
        let mut last_change = std::time::Instant::now();
        let mut timed_out = false;
        let status = loop {
            if let Some(st) = child.try_wait().expect("wait child") {
                break st;
            }
            let len = std::fs::metadata(&out).map(|m| m.len()).unwrap_or(0);
            if len != last_len {
                last_len = len;
                last_change = std::time::Instant::now();
            } else if last_change.elapsed().as_secs() >= STALL {
                let _ = child.kill();
                timed_out = true;
                break child.wait().expect("wait child");
            }
            std::thread::sleep(std::time::Duration::from_millis(20));
        };
        if status.success() {
            break;
        }
        let hang = timed_out || status.code() == Some(97);
        // find the case that was running: the last Begin without an End
        let f = std::fs::File::open(&out).unwrap();
        let mut last_begin: Option<usize> = None;
        let mut last_end: Option<usize> = None;
        for line in std::io::BufReader::new(f).lines() {
            let line = line.unwrap();
            if line.starts_with("{\"ev\":\"Begin\"") || line.contains("\"ev\":\"Begin\"") {
                if let Ok(v) = serde_json::from_str::<Value>(&line) {
                    if v["ev"] == "Begin" {
                        last_begin = v["i"].as_u64().map(|x| x as usize);
                    }
                }
            } else if line.contains("\"ev\":\"End\"") {
                if let Ok(v) = serde_json::from_str::<Value>(&line) {
                    last_end = v["i"].as_u64().map(|x| x as usize);
                }
            }
        }
        let crashed = match (last_begin, last_end) {
            (Some(b), Some(e)) if b == e => b + 1, // died between cases (should not happen)
            (Some(b), _) => b,
            _ => start,
        };
        use std::os::unix::process::ExitStatusExt;
        let sig = status.signal().unwrap_or(0);
        let mut f = std::fs::OpenOptions::new().append(true).open(&out).unwrap();
        // a partially written last line would break the trace: terminate it defensively
        let v = json!({"ev":"End","i":crashed,"outcome":if hang { "hang" } else { "abort" },"signal":sig,"code":status.code().unwrap_or(-1),
                       "r":{"raw_len":0,"head_ok":false,"status":0,"phrase":"","hs":[],"body_len":0,"hi":[],"outcome":"abort"}});
        writeln!(f, "{}", v).unwrap();
        aborts += 1;
        if timed_out {
            timeouts += 1;
            if timeouts >= 3 {
                eprintln!("conn: stopped after {} stalled connections at case {}", timeouts, crashed);
                return 0; // the recorded trace already carries three unanswered connections
            }
        }
        start = crashed + 1;
        if aborts > 200 {
            eprintln!("too many aborts");
            return 2;
        }
    }
    eprintln!("conn: {} cases, {} process aborts", ncases, aborts);
    0
}
