//! Library codecs (C14 request, C15 response, C16 multipart/form-data, C17 form/query): abstract values from
//! Gen_Codec are handed to the library's writer, the bytes to its reader, and both results are logged field by field.
use crate::http::*;
use crate::util::*;
use rws::body::form_urlencoded::FormUrlEncoded;
use rws::body::multipart_form_data::{FormMultipartData, Part};
use rws::header::Header;
use rws::range::{ContentRange, Range};
use rws::request::Request;
use rws::response::Response;
use rws::url::URL;
use serde_json::{json, Value};
use std::collections::HashMap;

fn headers_of(v: &Value) -> Vec<Header> {
    v.as_array()
        .map(|a| a.iter().map(|h| Header { name: h["n"].as_str().unwrap_or("").to_string(), value: h["v"].as_str().unwrap_or("").to_string() }).collect())
        .unwrap_or_default()
}
fn headers_json(hs: &[Header]) -> Value {
    Value::Array(hs.iter().map(|h| json!({"n": h.name, "v": h.value})).collect())
}

fn outcome3<T>(o: Outcome<Result<T, String>>, ok: impl FnOnce(T) -> Value) -> Value {
    match o {
        Outcome::Done(Ok(v)) => {
            let mut j = ok(v);
            j["outcome"] = json!("ok");
            j
        }
        Outcome::Done(Err(e)) => json!({"outcome":"err","msg":e}),
        Outcome::Panic { msg, loc } => json!({"outcome":"panic","msg":msg,"loc":short_loc(&loc)}),
    }
}

// ----------------------------------------------------------------------------- C14
fn req_roundtrip(c: &Value) -> Value {
    let r = Request {
        method: c["method"].as_str().unwrap().to_string(),
        request_uri: c["target"].as_str().unwrap().to_string(),
        http_version: c["version"].as_str().unwrap().to_string(),
        headers: headers_of(&c["headers"]),
        body: bytes_of(&c["body"]),
    };
    let names: Vec<String> = r.headers.iter().map(|h| h.name.clone()).collect();
    let bytes = r.generate();
    let obs = outcome3(guarded(move || Request::parse(&bytes)), |p| {
        let look = |n: String| p.get_header(n).map(|h| h.value.clone()).unwrap_or_else(|| "\u{0}absent".to_string());
        let lookups: Vec<Value> = names.iter().map(|n| json!([look(n.clone()), look(n.to_uppercase()), look(n.to_lowercase())])).collect();
        json!({"parsed": {"method": p.method, "target": p.request_uri, "version": p.http_version,
                          "headers": headers_json(&p.headers), "body": ints(&p.body)}, "lookups": lookups})
    });
    let value = json!({"method": c["method"], "target": c["target"], "version": c["version"], "headers": c["headers"], "body": c["body"]});
    json!({"op":"req_roundtrip","value":value,"obs":obs})
}

fn req_line(c: &Value) -> Value {
    let mut bytes: Vec<u8> = if c["raw"].as_array().map(|a| !a.is_empty()).unwrap_or(false) { bytes_of(&c["raw"]) } else { c["text"].as_str().unwrap_or("").as_bytes().to_vec() };
    bytes.extend_from_slice(b"\r\nHost: h\r\n\r\n");
    let obs = outcome3(guarded(move || Request::parse(&bytes)), |_p| json!({}));
    json!({"op":"req_line","cls":c["cls"],"text":c["text"],"raw":c["raw"],"obs":obs})
}

// ----------------------------------------------------------------------------- C15
fn build_response(c: &Value) -> Response {
    let parts: Vec<ContentRange> = c["parts"]
        .as_array()
        .unwrap()
        .iter()
        .map(|p| ContentRange {
            unit: Range::BYTES.to_string(),
            range: Range { start: p["lo"].as_u64().unwrap(), end: p["hi"].as_u64().unwrap() },
            size: p["size"].as_u64().unwrap().to_string(),
            body: bytes_of(&p["body"]),
            content_type: p["ct"].as_str().unwrap().to_string(),
        })
        .collect();
    Response {
        http_version: "HTTP/1.1".to_string(),
        status_code: c["status"].as_i64().unwrap() as i16,
        reason_phrase: c["phrase"].as_str().unwrap().to_string(),
        headers: headers_of(&c["headers"]),
        content_range_list: parts,
    }
}

fn parsed_response(p: Response) -> Value {
    let parts: Vec<Value> = p
        .content_range_list
        .iter()
        .map(|cr| json!({"ct": cr.content_type, "lo": cr.range.start, "hi": cr.range.end, "size": cr.size.parse::<u64>().unwrap_or(u64::MAX), "body": ints(&cr.body)}))
        .collect();
    json!({"parsed": {"status": p.status_code, "phrase": p.reason_phrase, "headers": headers_json(&p.headers), "parts": parts}})
}

fn serialise(resp: Response, ser: &str) -> Outcome<Vec<u8>> {
    let ser = ser.to_string();
    guarded(move || {
        if ser == "method" {
            let mut r = resp;
            r.generate()
        } else {
            let req = Request { method: "GET".into(), request_uri: "/".into(), http_version: "HTTP/1.1".into(), headers: vec![], body: vec![] };
            Response::generate_response(resp, req)
        }
    })
}

fn resp_roundtrip(c: &Value) -> Value {
    let resp = build_response(c);
    let ser = c["ser"].as_str().unwrap_or("assoc");
    let value = json!({"status": c["status"], "phrase": c["phrase"], "headers": c["headers"], "parts": c["parts"]});
    let bytes = match serialise(resp, ser) {
        Outcome::Done(b) => b,
        Outcome::Panic { msg, loc } => return json!({"op":"resp_roundtrip","ser":ser,"value":value,"obs":{"outcome":"panic","msg":msg,"loc":short_loc(&loc),"stage":"serialise"}}),
    };
    let obs = outcome3(guarded(move || Response::parse(&bytes)), parsed_response);
    json!({"op":"resp_roundtrip","ser":ser,"value":value,"obs":obs})
}

fn resp_all_statuses(out: &mut Out) {
    for st in Response::status_code_reason_phrase_list() {
        for ser in ["assoc", "method"] {
            let c = json!({"ser": ser, "status": *st.status_code, "phrase": st.reason_phrase, "headers": [{"n":"X-A","v":"1"}],
                           "parts": [{"ct":"text/plain","lo":0,"hi":2,"size":2,"body":[104,105]}]});
            out.emit(&resp_roundtrip(&c));
        }
    }
}

/// One status line with a single corrupted field (rel), for the idx-th registered status, in a single-part or a
/// multipart document.  Nothing is emitted when the corruption cannot be built (a one-character phrase cannot lose a
/// word) or when it happens to equal the registered phrase.
fn resp_status_line(c: &Value) -> Option<Value> {
    let list = Response::status_code_reason_phrase_list();
    let idx = c["idx"].as_u64().unwrap() as usize;
    if idx == 0 || idx > list.len() {
        return None;
    }
    let st = &list[idx - 1];
    let code = *st.status_code;
    let phrase = st.reason_phrase.to_string();
    let other = list[idx % list.len()].reason_phrase.to_string();
    let rel = c["rel"].as_str().unwrap();
    let (wcode, wphrase): (i64, String) = match rel {
        "exact" => (code as i64, phrase.clone()),
        "other_phrase" => (code as i64, other),
        "truncated_char" => (code as i64, phrase[..phrase.len() - 1].to_string()),
        "truncated_word" => (code as i64, phrase.rsplit_once(' ').map(|(a, _)| a.to_string())?),
        "extended_char" => (code as i64, format!("{}Y", phrase)),
        "extended_word" => (code as i64, format!("{} Indeed", phrase)),
        "empty_phrase" => (code as i64, String::new()),
        "case_changed" => (code as i64, phrase.to_lowercase()),
        "unregistered_code" => {
            let mut k = code as i64 + 1;
            while list.iter().any(|s| *s.status_code as i64 == k) {
                k += 1;
            }
            (k, phrase.clone())
        }
        _ => return None,
    };
    if rel != "exact" && rel != "unregistered_code" && wphrase == phrase {
        return None;
    }
    let doc = if c["frame"] == "multi" {
        format!("HTTP/1.1 {} {}\r\nContent-Type: multipart/byteranges; boundary=String_separator\r\n\r\n--String_separator\r\nContent-Type: text/plain\r\nContent-Range: bytes 0-1/10\r\n\r\nab\r\n--String_separator\r\nContent-Type: text/plain\r\nContent-Range: bytes 4-5/10\r\n\r\nef\r\n--String_separator", wcode, wphrase)
    } else {
        format!("HTTP/1.1 {} {}\r\nContent-Type: text/plain\r\nContent-Range: bytes 0-2/2\r\nContent-Length: 2\r\n\r\nhi", wcode, wphrase)
    };
    let dd = doc.clone().into_bytes();
    let obs = outcome3(guarded(move || Response::parse(&dd)), |_p| json!({}));
    Some(json!({"op":"resp_status_line","rel":rel,"frame":c["frame"],"status":code,"line":format!("HTTP/1.1 {} {}", wcode, wphrase),"obs":obs}))
}

/// A multipart/byteranges document of n parts in the library's own framing with one structural element removed.
fn resp_struct(c: &Value) -> Option<Value> {
    let n = c["n"].as_u64().unwrap() as usize;
    let at = c["at"].as_u64().unwrap() as usize;
    let brk = c["brk"].as_str().unwrap();
    if at > n {
        return None;
    }
    let mut s = String::from("HTTP/1.1 206 Partial Content\r\n");
    s.push_str(if brk == "no_boundary_param" { "Content-Type: multipart/byteranges\r\n\r\n" } else { "Content-Type: multipart/byteranges; boundary=String_separator\r\n\r\n" });
    for i in 1..=n {
        if !(i == 1 && brk == "no_opening") {
            if i > 1 {
                s.push_str("\r\n");
            }
            s.push_str("--String_separator\r\n");
        }
        s.push_str(&format!("Content-Type: text/plain\r\nContent-Range: bytes {}-{}/100\r\n", 10 * i, 10 * i + 1));
        if !(brk == "no_blank_line" && i == at) {
            s.push_str("\r\n");
        }
        s.push_str(&format!("p{}", i % 10));
    }
    if brk != "no_closing" {
        s.push_str("\r\n--String_separator");
    }
    let dd = s.clone().into_bytes();
    let obs = outcome3(guarded(move || Response::parse(&dd)), |p| json!({"nparts": p.content_range_list.len()}));
    Some(json!({"op":"resp_struct","brk":brk,"n":n,"at":at,"doc":s,"obs":obs}))
}

/// A multipart/form-data body of n parts written by the library itself, then one structural element removed.
fn multipart_struct(c: &Value) -> Option<Value> {
    let n = c["n"].as_u64().unwrap() as usize;
    let at = c["at"].as_u64().unwrap() as usize;
    let brk = c["brk"].as_str().unwrap();
    if at > n || (at > 1 && brk != "part_without_headers") {
        return None;
    }
    let boundary = c["boundary"].as_str().unwrap().to_string();
    let parts: Vec<Part> = (1..=n)
        .map(|i| Part { headers: vec![Header { name: "Content-Disposition".to_string(), value: format!("form-data; name=\"f{}\"", i) }], body: format!("value{}", i).into_bytes() })
        .collect();
    let b2 = boundary.clone();
    let bytes = match guarded(move || FormMultipartData::generate(parts, &b2)) {
        Outcome::Done(Ok(b)) => b,
        _ => return None,
    };
    // the document as lines (the library writes CRLF line ends)
    let text = String::from_utf8(bytes).ok()?;
    let mut lines: Vec<&str> = text.split("\r\n").collect();
    let is_delim = |l: &str| l == boundary || l == format!("{}--", boundary);
    match brk {
        "exact" => {}
        "no_opening" => {
            let i = lines.iter().position(|l| is_delim(l))?;
            lines.remove(i);
        }
        "no_closing" => {
            let i = lines.iter().rposition(|l| is_delim(l))?;
            lines.truncate(i);
        }
        "part_without_headers" => {
            // the header lines of part `at` (between its delimiter and the blank line) are removed
            let starts: Vec<usize> = lines.iter().enumerate().filter(|(_, l)| **l == boundary).map(|(i, _)| i).collect();
            let d = *starts.get(at - 1)?;
            let blank = (d + 1..lines.len()).find(|&j| lines[j].is_empty())?;
            lines.drain(d + 1..blank);
        }
        _ => return None,
    }
    let doc = lines.join("\r\n").into_bytes();
    let dd = doc.clone();
    let b3 = boundary.clone();
    let obs = outcome3(guarded(move || FormMultipartData::parse(&dd, b3)), |ps| json!({"nparts": ps.len()}));
    Some(json!({"op":"multipart_struct","brk":brk,"n":n,"at":at,"boundary":boundary,"doc":String::from_utf8_lossy(&doc),"obs":obs}))
}

fn resp_corrupt(c: &Value) -> Vec<Value> {
    // corruptions of a valid serialisation; the class names what was broken
    let single = b"HTTP/1.1 200 OK\r\nContent-Type: text/plain\r\nContent-Range: bytes 0-2/2\r\nContent-Length: 2\r\n\r\nhi".to_vec();
    let multi = |open: bool, close: bool, blank: bool| -> Vec<u8> {
        let mut s = String::from("HTTP/1.1 206 Partial Content\r\nContent-Type: multipart/byteranges; boundary=String_separator\r\n\r\n");
        if open {
            s.push_str("--String_separator\r\n");
        }
        s.push_str("Content-Type: text/plain\r\nContent-Range: bytes 0-1/10\r\n");
        if blank {
            s.push_str("\r\n");
        }
        s.push_str("ab\r\n--String_separator\r\nContent-Type: text/plain\r\nContent-Range: bytes 4-5/10\r\n\r\nef");
        if close {
            s.push_str("\r\n--String_separator");
        }
        s.into_bytes()
    };
    let cls = c["cls"].as_str().unwrap();
    let docs: Vec<Vec<u8>> = match cls {
        "unknown_status" => vec![String::from_utf8(single.clone()).unwrap().replace("200 OK", "299 OK").into_bytes(),
                                 String::from_utf8(single.clone()).unwrap().replace("200 OK", "600 Whatever").into_bytes(),
                                 String::from_utf8(single.clone()).unwrap().replace("200 OK", "20 OK").into_bytes()],
        "phrase_mismatch" => vec![String::from_utf8(single.clone()).unwrap().replace("200 OK", "200 Not Found").into_bytes(),
                                  String::from_utf8(single.clone()).unwrap().replace("200 OK", "404 OK").into_bytes()],
        "no_opening_boundary" => vec![multi(false, true, true)],
        "no_closing_boundary" => vec![multi(true, false, true)],
        "part_without_blank_line" => vec![multi(true, true, false)],
        _ => vec![],
    };
    // sanity anchors: the uncorrupted documents must parse (otherwise the corruption proves nothing)
    let mut evs = vec![];
    for (i, d) in docs.into_iter().enumerate() {
        let dd = d.clone();
        let obs = outcome3(guarded(move || Response::parse(&dd)), |_p| json!({}));
        evs.push(json!({"op":"resp_corrupt","cls":cls,"variant":i,"doc":String::from_utf8_lossy(&d),"obs":obs}));
    }
    evs
}

// ----------------------------------------------------------------------------- C16
fn parts_of(v: &Value) -> Vec<Part> {
    v.as_array().unwrap().iter().map(|p| Part { headers: headers_of(&p["headers"]), body: bytes_of(&p["body"]) }).collect()
}

fn multipart(c: &Value) -> Value {
    let boundary = c["boundary"].as_str().unwrap().to_string();
    let parts = parts_of(&c["parts"]);
    let b2 = boundary.clone();
    let generated = guarded(move || FormMultipartData::generate(parts, &b2));
    let value = json!({"parts": c["parts"], "boundary": boundary});
    let bytes = match generated {
        Outcome::Done(Ok(b)) => b,
        Outcome::Done(Err(e)) => return json!({"op":"multipart","value":value,"boundary_b":ints(boundary.as_bytes()),"obs":{"outcome":"err","stage":"generate","msg":e}}),
        Outcome::Panic { msg, loc } => return json!({"op":"multipart","value":value,"boundary_b":ints(boundary.as_bytes()),"obs":{"outcome":"panic","stage":"generate","msg":msg,"loc":short_loc(&loc)}}),
    };
    let b3 = boundary.clone();
    let obs = outcome3(guarded(move || FormMultipartData::parse(&bytes, b3)), |ps| {
        json!({"parts": ps.iter().map(|p| json!({"headers": headers_json(&p.headers), "body": ints(&p.body)})).collect::<Vec<_>>()})
    });
    json!({"op":"multipart","value":value,"boundary_b":ints(boundary.as_bytes()),"obs":obs})
}

fn multipart_corrupt(c: &Value) -> Value {
    let cls = c["cls"].as_str().unwrap();
    let doc: Vec<u8> = match cls {
        "no_opening_boundary" => b"Content-Disposition: form-data; name=\"f\"\r\n\r\nvalue\r\n--b".to_vec(),
        "no_closing_boundary" => b"--b\r\nContent-Disposition: form-data; name=\"f\"\r\n\r\nvalue\r\n".to_vec(),
        _ => b"--b\r\n\r\nvalue\r\n--b".to_vec(),
    };
    let obs = outcome3(guarded(move || FormMultipartData::parse(&doc, "--b".to_string())), |_p| json!({}));
    json!({"op":"multipart_corrupt","cls":cls,"obs":obs})
}

fn boundary_param(c: &Value) -> Value {
    let ct = c["ct"].as_str().unwrap().to_string();
    let obs = outcome3(guarded(move || FormMultipartData::extract_boundary(&ct)), |b| json!({"boundary": b}));
    json!({"op":"boundary_param","value":{"ct":c["ct"],"boundary":c["boundary"]},"obs":obs})
}

// ----------------------------------------------------------------------------- C17
fn pairs_json(m: &HashMap<String, String>) -> Value {
    let mut v: Vec<(&String, &String)> = m.iter().collect();
    v.sort();
    Value::Array(v.into_iter().map(|(k, v)| json!([k, v])).collect())
}

/// body of the echo endpoints: lines "<key> is <value>\r\n"; split mechanically at the first " is "
fn echo_pairs(body: &[u8]) -> Value {
    let text = String::from_utf8_lossy(body).to_string();
    let mut out = vec![];
    for line in text.split("\r\n") {
        if line.is_empty() {
            continue;
        }
        match line.find(" is ") {
            Some(i) => out.push(json!([line[..i].to_string(), line[i + 4..].to_string()])),
            None => out.push(json!([line.to_string(), "\u{0}no-separator"])),
        }
    }
    Value::Array(out)
}

fn map_events(c: &Value) -> Vec<Value> {
    let mut m: HashMap<String, String> = HashMap::new();
    // a value is a string, or ["rep", unit, n] = the unit repeated n times (long values are written that way by the generator)
    let expand = |v: &Value| -> String {
        match v.as_array() {
            Some(a) if a.len() == 3 && a[0] == "rep" => a[1].as_str().unwrap_or("").repeat(a[2].as_u64().unwrap_or(1) as usize),
            _ => v.as_str().unwrap_or("").to_string(),
        }
    };
    let mut expanded: Vec<Value> = vec![];
    for p in c["pairs"].as_array().unwrap() {
        let (k, v) = (expand(&p[0]), expand(&p[1]));
        expanded.push(json!([k, v]));
        m.insert(k, v);
    }
    let value = json!({"pairs": expanded});
    let mut evs = vec![];
    // leg 1: query
    let m1 = m.clone();
    let obs = outcome3(guarded(move || Ok::<_, String>(URL::parse_query(&URL::build_query(m1)))), |p| json!({"pairs": pairs_json(&p)}));
    evs.push(json!({"op":"map","leg":"query","value":value,"obs":obs}));
    // leg 2: url-encoded body
    let m2 = m.clone();
    let obs = outcome3(guarded(move || FormUrlEncoded::parse(FormUrlEncoded::generate(m2).into_bytes())), |p| json!({"pairs": pairs_json(&p)}));
    evs.push(json!({"op":"map","leg":"form_body","value":value,"obs":obs}));
    if m.is_empty() {
        return evs;
    }
    // leg 3: the echo endpoints of the server through the production entry point
    let q = URL::build_query(m.clone());
    let get = format!("GET /form-get-method?{} HTTP/1.1\r\nHost: localhost\r\n\r\n", q).into_bytes();
    let post = format!("POST /form-url-encoded-enctype-post-method HTTP/1.1\r\nHost: localhost\r\nContent-Type: application/x-www-form-urlencoded\r\nContent-Length: {}\r\n\r\n{}", q.len(), q).into_bytes();
    for (leg, bytes) in [("echo_get", get), ("echo_post", post)] {
        if bytes.len() > 9000 {
            continue;
        }
        let (mock, wire) = Mock::new(bytes);
        let ran = run_prod(mock, wire, 10000);
        let p = project(&ran.raw, "full");
        let body = bytes_of(&p["body"]);
        let obs = if ran.outcome == "panic" {
            json!({"outcome":"panic","loc":ran.loc,"msg":ran.msg})
        } else if p["status"].as_u64() == Some(200) {
            json!({"outcome":"ok","pairs":echo_pairs(&body),"status":200})
        } else {
            json!({"outcome":"err","status":p["status"]})
        };
        evs.push(json!({"op":"map","leg":leg,"value":value,"obs":obs}));
    }
    evs
}

// ----------------------------------------------------------------------------- the dynamic endpoints (Endpoints.tla)
/// One abstract request to (or near) one of the four dynamic endpoints, rendered independently of the library's
/// writers, sent through Server::process; the answer is reported as status, content type and CRLF-terminated lines.
fn endpoint(c: &Value) -> Value {
    fn enc(s: &str) -> String {
        s.bytes().map(|b| if b.is_ascii_alphanumeric() || b"-_.~".contains(&b) { (b as char).to_string() } else { format!("%{:02X}", b) }).collect()
    }
    fn enc_pairs(v: &Value) -> String {
        v.as_array().map(|a| a.iter().map(|p| format!("{}={}", enc(p[0].as_str().unwrap_or("")), enc(p[1].as_str().unwrap_or("")))).collect::<Vec<_>>().join("&")).unwrap_or_default()
    }
    let base = match c["pcls"].as_str().unwrap_or("") {
        "upload" => "/file-upload/initiate",
        "form_url" => "/form-url-encoded-enctype-post-method",
        "form_get" => "/form-get-method",
        _ => "/form-multipart-enctype-post-method",
    };
    let path = match c["pvar"].as_str().unwrap_or("") {
        "exact" => base.to_string(),
        "trailing_slash" => format!("{}/", base),
        "upper" => base.to_uppercase(),
        _ => format!("{}x", base),
    };
    let target = if c["query"]["p"].as_bool() == Some(true) { format!("{}?{}", path, enc_pairs(&c["query"]["pairs"])) } else { path };
    let boundary = "XyZ123";
    let cls = c["ctype"].as_str().unwrap_or("none");
    let ctype = match cls {
        "form_exact" => Some("application/x-www-form-urlencoded".to_string()),
        "form_upper" => Some("Application/X-WWW-Form-UrlEncoded".to_string()),
        "form_param" => Some("application/x-www-form-urlencoded; charset=UTF-8".to_string()),
        "multi" => Some(format!("multipart/form-data; boundary={}", boundary)),
        "multi_upper" => Some(format!("Multipart/Form-Data; boundary={}", boundary)),
        "multi_two_blanks" => Some(format!("multipart/form-data;  boundary={}", boundary)),
        "multi_no_boundary" => Some("multipart/form-data".to_string()),
        "other" => Some("text/plain".to_string()),
        _ => None,
    };
    let method = c["method"].as_str().unwrap_or("GET");
    let body: Vec<u8> = if cls.starts_with("multi") {
        let mut b = vec![];
        for p in c["parts"].as_array().cloned().unwrap_or_default() {
            b.extend_from_slice(format!("--{}\r\n", boundary).as_bytes());
            if p["named"].as_bool() == Some(true) {
                b.extend_from_slice(format!("Content-Disposition: form-data; name=\"{}\"\r\n", p["name"].as_str().unwrap_or("")).as_bytes());
            } else {
                b.extend_from_slice(b"Content-Type: text/plain\r\n");
            }
            b.extend_from_slice(b"\r\n");
            b.extend_from_slice(p["body"].as_str().unwrap_or("").as_bytes());
            b.extend_from_slice(b"\r\n");
        }
        b.extend_from_slice(format!("--{}--\r\n", boundary).as_bytes());
        b
    } else if method == "POST" || method == "PUT" {
        enc_pairs(&c["form"]).into_bytes()
    } else {
        vec![]
    };
    let mut req = format!("{} {} HTTP/1.1\r\nHost: localhost\r\n", method, target);
    if let Some(ct) = &ctype {
        req += &format!("Content-Type: {}\r\n", ct);
    }
    if method == "POST" || method == "PUT" {
        req += &format!("Content-Length: {}\r\n", body.len());
    }
    req += "\r\n";
    let mut bytes = req.into_bytes();
    bytes.extend_from_slice(&body);
    let alloc = c["alloc"].as_i64().unwrap_or(10000);
    std::env::set_var("RWS_CONFIG_REQUEST_ALLOCATION_SIZE_IN_BYTES", alloc.to_string());
    let (mock, wire) = Mock::new(bytes);
    let ran = run_prod(mock, wire, alloc);
    std::env::set_var("RWS_CONFIG_REQUEST_ALLOCATION_SIZE_IN_BYTES", "10000");
    let p = project(&ran.raw, "full");
    let body = bytes_of(&p["body"]);
    let text = String::from_utf8_lossy(&body).to_string();
    let mut lines: Vec<String> = text.split("\r\n").map(|x| x.to_string()).collect();
    match lines.last() {
        Some(l) if l.is_empty() => { lines.pop(); }
        Some(_) => { let n = lines.len() - 1; lines[n] += "<no-crlf>"; }
        None => {}
    }
    let mut rct = String::new();
    for h in p["hs"].as_array().cloned().unwrap_or_default() {
        if h["nl"] == "content-type" {
            rct = h["v"].as_str().unwrap_or("").to_string();
        }
    }
    json!({"op": "endpoint", "req": c, "obs": {"outcome": ran.outcome, "status": p["status"].as_u64().unwrap_or(0), "ctype": rct, "lines": lines}})
}

pub fn run(o: &Opts) -> i32 {
    let mut out = Out::create(o.req("out"));
    let cases = read_ndjson(o.req("cases"));
    rws::entry_point::set_default_values();
    let res = on_named_thread("0", 8 << 20, move || {
        for c in cases.iter() {
            match c["kind"].as_str().unwrap_or("") {
                "roundtrip" => out.emit(&req_roundtrip(c)),
                "line" => out.emit(&req_line(c)),
                "resp" => out.emit(&resp_roundtrip(c)),
                "resp_all_statuses" => resp_all_statuses(&mut out),
                "resp_status_line" => {
                    if let Some(e) = resp_status_line(c) {
                        out.emit(&e);
                    }
                }
                "resp_struct" => {
                    if let Some(e) = resp_struct(c) {
                        out.emit(&e);
                    }
                }
                "multipart_struct" => {
                    if let Some(e) = multipart_struct(c) {
                        out.emit(&e);
                    }
                }
                "resp_corrupt" => {
                    for e in resp_corrupt(c) {
                        out.emit(&e);
                    }
                }
                "endpoint" => out.emit(&endpoint(c)),
                "multipart" => out.emit(&multipart(c)),
                "multipart_corrupt" => out.emit(&multipart_corrupt(c)),
                "boundary_param" => out.emit(&boundary_param(c)),
                "json_object" => out.emit(&crate::d_json::json_object(c)),
                "json_odd" => out.emit(&crate::d_json::json_odd(c)),
                "json_array" => out.emit(&crate::d_json::json_array(c)),
                "map" => {
                    for e in map_events(c) {
                        out.emit(&e);
                    }
                }
                _ => {}
            }
        }
        let n = out.n;
        out.finish();
        eprintln!("codec: {} events", n);
        0
    });
    res.unwrap_or(2)
}
