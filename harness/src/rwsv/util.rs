use serde_json::{json, Value};
use std::cell::RefCell;
use std::collections::HashMap;
use std::fs::File;
use std::io::{BufRead, BufReader, BufWriter, Write};
use std::panic::{catch_unwind, AssertUnwindSafe};

pub struct Opts {
    pub map: HashMap<String, String>,
}

impl Opts {
    pub fn parse(args: &[String]) -> Opts {
        let mut map = HashMap::new();
        let mut i = 0;
        while i < args.len() {
            let k = args[i].trim_start_matches("--").to_string();
            if i + 1 < args.len() && !args[i + 1].starts_with("--") {
                map.insert(k, args[i + 1].clone());
                i += 2;
            } else {
                map.insert(k, "true".to_string());
                i += 1;
            }
        }
        Opts { map }
    }
    pub fn get(&self, k: &str) -> Option<&str> {
        self.map.get(k).map(|s| s.as_str())
    }
    pub fn req(&self, k: &str) -> &str {
        match self.map.get(k) {
            Some(s) => s.as_str(),
            None => {
                eprintln!("missing --{}", k);
                std::process::exit(2)
            }
        }
    }
    pub fn num(&self, k: &str, default: u64) -> u64 {
        self.map.get(k).map(|s| s.parse().expect("number")).unwrap_or(default)
    }
}

pub fn read_ndjson(path: &str) -> Vec<Value> {
    let f = File::open(path).unwrap_or_else(|e| {
        eprintln!("cannot open {}: {}", path, e);
        std::process::exit(2)
    });
    let mut out = vec![];
    for line in BufReader::new(f).lines() {
        let line = line.expect("read line");
        if line.trim().is_empty() {
            continue;
        }
        out.push(serde_json::from_str(&line).unwrap_or_else(|e| {
            eprintln!("bad json in {}: {}", path, e);
            std::process::exit(2)
        }));
    }
    out
}

pub struct Out {
    w: BufWriter<File>,
    pub n: u64,
}

impl Out {
    pub fn create(path: &str) -> Out {
        let f = File::create(path).unwrap_or_else(|e| {
            eprintln!("cannot create {}: {}", path, e);
            std::process::exit(2)
        });
        Out { w: BufWriter::with_capacity(1 << 20, f), n: 0 }
    }
    pub fn emit(&mut self, v: &Value) {
        serde_json::to_writer(&mut self.w, v).expect("write");
        self.w.write_all(b"\n").expect("write");
        self.n += 1;
    }
    pub fn finish(mut self) {
        self.w.flush().expect("flush");
    }
}

pub fn bytes_of(v: &Value) -> Vec<u8> {
    v.as_array()
        .map(|a| a.iter().map(|x| x.as_u64().unwrap_or(0) as u8).collect())
        .unwrap_or_default()
}

pub fn ints(b: &[u8]) -> Value {
    Value::Array(b.iter().map(|x| json!(*x)).collect())
}

thread_local! {
    static LAST_PANIC: RefCell<Option<(String, String)>> = RefCell::new(None);
}

/// Panics of the code under test are data: the hook stores message and location for the
/// thread that panicked and prints nothing.
pub fn install_panic_hook() {
    std::panic::set_hook(Box::new(|info| {
        let msg = if let Some(s) = info.payload().downcast_ref::<&str>() {
            s.to_string()
        } else if let Some(s) = info.payload().downcast_ref::<String>() {
            s.clone()
        } else {
            "<non-string panic payload>".to_string()
        };
        let loc = info
            .location()
            .map(|l| format!("{}:{}", l.file(), l.line()))
            .unwrap_or_else(|| "<unknown>".to_string());
        LAST_PANIC.with(|p| *p.borrow_mut() = Some((msg, loc)));
    }));
}

pub enum Outcome<T> {
    Done(T),
    Panic { msg: String, loc: String },
}

/// Run a call into the code under test; a panic becomes an observation.
pub fn guarded<T>(f: impl FnOnce() -> T) -> Outcome<T> {
    LAST_PANIC.with(|p| *p.borrow_mut() = None);
    match catch_unwind(AssertUnwindSafe(f)) {
        Ok(v) => Outcome::Done(v),
        Err(_) => {
            let (msg, loc) = LAST_PANIC
                .with(|p| p.borrow_mut().take())
                .unwrap_or(("<unknown>".into(), "<unknown>".into()));
            Outcome::Panic { msg, loc }
        }
    }
}

/// Strip the absolute prefix of the repository from a panic location so that signatures are
/// stable across checkouts ("src/request/mod.rs:322").
pub fn short_loc(loc: &str) -> String {
    match loc.find("/src/") {
        Some(i) if loc.starts_with('/') => loc[i + 1..].to_string(),
        _ => loc.to_string(),
    }
}

/// Run `f` on a named thread with the given stack size (the server's workers are named
/// threads with the default 2 MiB stack, and Log::request_response unwraps the thread name).
pub fn on_named_thread<T: Send + 'static>(
    name: &str,
    stack: usize,
    f: impl FnOnce() -> T + Send + 'static,
) -> std::thread::Result<T> {
    std::thread::Builder::new()
        .name(name.to_string())
        .stack_size(stack)
        .spawn(f)
        .expect("spawn")
        .join()
}
