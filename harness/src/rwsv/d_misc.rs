//! small one-off helpers
use crate::util::*;
use rws::mime_type::MimeType;

/// print "name<TAB>type" for each comma separated file name (used once to transcribe the MIME table into the spec)
pub fn mime(o: &Opts) -> i32 {
    for name in o.req("names").split(',') {
        println!("{}\t{}", name, MimeType::detect_mime_type(name));
    }
    0
}
