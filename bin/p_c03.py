"""C03 — byte-range requests return exactly the requested bytes."""
import time
import vlib
import static_common as S


def spec_class(s):
    def off(o, L=None):
        return o["k"] if o["k"] != "n" else "n"
    t = s["t"]
    if t == "fl":
        return "fl(%s,%s)" % (off(s["a"]), off(s["b"]))
    if t in ("f", "s"):
        return "%s(%s)" % (t, off(s["a"]))
    return "junk"


def signature(clauses, e):
    q = e["q"]
    specs = q["range"]["specs"]
    detail = e.get("_detail") or []
    classes = [spec_class(s) for s in specs]
    if len(classes) > 8:        # long lists: class x count
        classes = ["%sx%d" % (c, classes.count(c)) for c in sorted(set(classes))]
    if len(detail) > 8:
        detail = ["%sx%d" % (c, detail.count(c)) for c in sorted(set(detail))]
    return "%s:status=%s:%s:specs=%s:parts=%s" % (",".join(clauses), e["r"].get("status"), e["r"].get("outcome"), "+".join(classes), "+".join(detail))


def run(tier, replay):
    t0 = time.time()
    ev = vlib.new_evidence("C03", tier, "model_checking")
    vlib.build_harness()
    with vlib.Scratch("c03") as sc:
        mc = vlib.model_check("MC_Range", "MC_Range", workers=4, heap="4g")
        worlds, cases, ncases, gen = S.generate("c03", 2 if tier == "quick" else 3, sc)
        trace = S.serve(worlds, cases, sc, obs="full", stats=True)
        verdict = vlib.Verdict("C03")
        tv = S.judge("C03", "Trace_Static_c03", trace, verdict, signature, heap="12g")
        trace3 = S.serve(worlds, cases, sc, obs="full", stats=False, tag="w", wire=True)
        tv3 = S.judge("C03", "Trace_Static_c03", trace3, verdict, signature, heap="12g")
        n1 = S.count_events(trace)
        n3 = S.count_events(trace3)
        ev["coverage"] = {
            "states": mc.distinct + gen.distinct, "transitions": mc.generated + gen.generated,
            "traces_validated_against_impl": n1["Serve"] + n3["Serve"], "wire_requests": n3["Serve"], "spec_cases_replayed": ncases,
            "samples": S.sample_events(trace, 3),
            "rule": "[plus BigWorld: a 12 MiB file with slices of 1 / 4 / 8 MiB +-1, 10 and 12 MB judged by label, lengths and a sample; a 2 MiB file with 1100 / 2000 ranges] Gen_Static(c03): file lengths {0,1,2,3,10,8191,8192,8193,70000} x every single spec (first-last, first-, -suffix, junk) with offsets "
                    "from {0,1,L-2,L-1,L,L+1,u64max,>u64max,junk} + all pairs%s over a reduced spec set + whitespace / wrong unit / empty list; "
                    "each response judged by C03Violations (status, Content-Range labels, exact slice bytes, multipart structure and order)" % ("" if tier == "quick" else " and triples"),
        }
        ev["assumptions"] = ["file contents are defined by the spec pattern", "multipart bodies are split on CRLF--boundary by a spec operator"]
        ev["wall_s"] = round(time.time() - t0, 1)
        return verdict.finish(ev)
