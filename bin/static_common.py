"""Shared pipeline of the static-serving checks (C01, C02, C03, C09): Gen_Static -> rwsv serve -> Trace_Static."""
import json
import os
import vlib


def generate(mode, k, sc, tag=""):
    """Run Gen_Static in the given mode; returns (worlds_path, cases_path, n_cases, tlc result)."""
    cfg_dir = sc.path("gen" + tag)
    os.makedirs(cfg_dir, exist_ok=True)
    name = "GenStatic_%s%s" % (mode, tag)
    open(os.path.join(cfg_dir, name + ".tla"), "w").write("---- MODULE %s ----\nEXTENDS Gen_Static\n====\n" % name)
    open(os.path.join(cfg_dir, name + ".cfg"), "w").write(
        'SPECIFICATION Spec\nCONSTANTS\n  Mode = "%s"\n  K = %d\nINVARIANT Emit\nCHECK_DEADLOCK FALSE\n' % (mode, k))
    cases_path = sc.path("cases%s.ndjson" % tag)
    with open(cases_path, "w") as sink:
        r = vlib.run_tlc(name, workers=4, timeout=1800, heap="8g", spec_dir=cfg_dir, case_sink=sink)
    if not r.ok:
        raise vlib.ToolError("Gen_Static(%s) failed:\n%s" % (mode, r.out[-3000:]))
    worlds = [json.loads(vlib._unquote_tla_string(rest)) for tag_, rest in r.lines if tag_ == "WORLD"]
    worlds_path = sc.path("worlds%s.ndjson" % tag)
    vlib.write_ndjson(worlds_path, worlds)
    return worlds_path, cases_path, len(r.cases), r


def serve(worlds_path, cases_path, sc, obs="full", triple=False, stats=True, tag="", wire=False, rewrite=False):
    trace = sc.path("trace%s.ndjson" % tag)
    scratch = sc.path("trees%s" % tag)
    os.makedirs(scratch, exist_ok=True)
    args = ["serve", "--worlds", worlds_path, "--cases", cases_path, "--out", trace, "--scratch", scratch, "--obs", obs]
    if triple:
        args.append("--triple")
    if stats:
        args.append("--stats")
    if rewrite:
        args.append("--rewrite")      # second pass over the same cases after the files were rewritten in place (same length, same mtime)
    if wire:
        args += ["--bin", vlib.build_rws_binary()]
    vlib.run_harness(args, timeout=3000)
    return trace


def judge(prop, cfg, trace, verdict, signature, heap="8g", conformance=None):
    """Validate with Trace_Static/<cfg>; route rejected events of `prop` to the verdict. Returns (tv, events_or_None).
    conformance: optional list; rejections by clauses "R.*" (Router: behaviour pinned beyond the listed properties) are
    appended to it -- they are reported as notes, never as a VIOLATION of a property."""
    tv = vlib.validate_trace("Trace_Static", trace, cfg=cfg, heap=heap)
    tool = [f for f in tv.fails if any(p.startswith("TOOL.") for p in f["props"])]
    if tool:
        raise vlib.ToolError("environment / world model error reported by Trace_Static: %s" % json.dumps(tool[:3])[:1500])
    if tv.fails:
        events = load_events(trace, [f["i"] for f in tv.fails])
        for f in tv.fails:
            mine = sorted(p for p in f["props"] if p.startswith(prop + "."))
            beyond = sorted(p for p in f["props"] if p.startswith("R."))
            if beyond and conformance is not None:
                e0 = events[f["i"]]
                conformance.append({"clauses": beyond, "target": e0.get("target"), "method": e0["q"].get("method"), "world": e0["q"].get("w"),
                                    "surface": e0.get("surface", "in-process"), "status": e0["r"].get("status"), "builtin": e0["r"].get("builtin")})
            if not mine:
                continue
            e = events[f["i"]]
            e["_detail"] = f.get("detail")
            verdict.reject(signature(mine, e), {"clauses": mine, "surface": e.get("surface", "in-process"), "detail": f.get("detail"), "target": e.get("target"), "q": e["q"],
                                                "status": e["r"].get("status"), "outcome": e["r"].get("outcome"),
                                                "panic_at": e["r"].get("loc"), "event_index": f["i"]})
    return tv


def load_events(trace, idxs):
    want = set(idxs)
    out = {}
    with open(trace) as fh:
        for n, line in enumerate(fh, 1):
            if n in want:
                e = json.loads(line)
                if "r" in e and "body" in e["r"] and len(e["r"]["body"]) > 64:
                    e["r"]["body"] = e["r"]["body"][:64] + ["..."]
                out[n] = e
    return out


def sample_events(trace, k=2):
    out = []
    with open(trace) as fh:
        for line in fh:
            e = json.loads(line)
            if e.get("ev") == "Serve":
                r = e["r"]
                out.append({"target": e.get("target"), "entry": e["q"].get("entry"), "method": e["q"].get("method"),
                            "status": r.get("status"), "body_len": r.get("body_len")})
                if len(out) >= k:
                    break
    return out


def count_events(trace):
    n = {"Serve": 0, "Stat": 0, "Mount": 0}
    with open(trace) as fh:
        for line in fh:
            i = line.find('"ev":"')
            ev = line[i + 6:line.find('"', i + 6)]
            n[ev] = n.get(ev, 0) + 1
    return n


def sample_cases(cases_path, out_path, every=1, entry="prod"):
    """every k-th case of the given entry point (for the wire surface)"""
    n = kept = 0
    with open(cases_path) as f, open(out_path, "w") as o:
        for line in f:
            if '"entry":"%s"' % entry not in line:
                continue
            n += 1
            if n % every == 0:
                o.write(line)
                kept += 1
    return kept
