"""C18 — Base64 conforms to RFC 4648 and round-trips (spec: Codec_Base64, MC_Base64, Trace_Base64)."""
import time
import vlib


def run(tier, replay):
    t0 = time.time()
    ev = vlib.new_evidence("C18", tier, "model_checking")
    vlib.build_harness()
    with vlib.Scratch("c18") as sc:
        # 1. model-check the specification and let TLC emit the replay cases (every 1- and 2-byte group,
        #    3-byte groups and longer inputs over B3)
        cases_path = sc.path("cases.ndjson")
        cfg = "MC_Base64" if tier == "quick" else "MC_Base64_thorough"
        with open(cases_path, "w") as sink:
            mc = vlib.model_check("MC_Base64", cfg, workers=8, timeout=3000, case_sink=sink, heap="8g")
        # 1b. the 24-bit group arithmetic of the specification itself, for every group with the first byte in First
        #     (thorough: all 2^24 groups), incl. the sweep tables the implementation is judged by
        mcg = vlib.model_check("MC_Base64Groups", "MC_Base64Groups" if tier == "quick" else "MC_Base64Groups_full",
                               workers=8 if tier == "quick" else 14, timeout=6000, heap="8g")
        vlib.model_check("MC_Base64Groups", "MC_Base64Groups_mut", expect_violation=True, workers=4, heap="4g")
        # 2. replay on the real library + seeded random inputs and corruptions
        trace = sc.path("trace.ndjson")
        nrand, maxlen, ncorr = (300, 600, 40) if tier == "quick" else (3000, 6000, 400)
        # sweep: how many values of the first coordinate (of 256 bytes / proportionally of 64 characters); the
        # other coordinates always run in full.  256 = all 2^24 three-byte groups and all 64^4 four-character groups.
        sweep = 4 if tier == "quick" else 256
        if replay:
            cases_path = replay
        vlib.run_harness(["base64", "--cases", cases_path, "--out", trace, "--seed", vlib.seed(),
                          "--random", nrand, "--maxlen", maxlen, "--corrupt", ncorr, "--sweep", sweep, "--threads", 14,
                          "--insert", 6 if tier == "quick" else 60, "--longforeign", 2 if tier == "quick" else 8, "--big", 9 if tier == "quick" else 30, "--bigdec", 0 if tier == "quick" else 3, "--biglen", 65536],
                         timeout=3000)
        # 3. validate the recorded trace against the specification
        tv = vlib.validate_trace("Trace_Base64", trace, heap="12g" if tier == "thorough" else "6g")
        events = vlib.read_ndjson(trace) if tv.fails else None
        verdict = vlib.Verdict("C18")
        for f in tv.fails:
            e = events[f["i"] - 1]
            sig = "%s:%s:len%d" % (",".join(sorted(f["props"])), e["outcome"], len(e["in"]))
            verdict.reject(sig, {"event": e, "props": f["props"]})
        samples = vlib.read_ndjson(trace)[:0] if False else None
        with open(trace) as fh:
            head = [next(fh).strip() for _ in range(3)]
        ev["coverage"] = {
            "states": mc.distinct + mcg.distinct, "transitions": mc.generated + mcg.generated,
            "spec_groups_checked": mcg.distinct,
            "traces_validated_against_impl": tv.done[0],
            "samples": [__import__("json").loads(h) for h in head],
            "spec_cases_replayed": len(mc.cases),
            "trace_events": tv.done[0], "rejected_events": tv.done[1],
            "exhaustive": tier == "thorough",
            "sweep_calls": sweep * 65536 + max(1, sweep // 4) * 64 ** 3,
            "sweep_events": sum(1 for line in open(trace) if '"op":"sweep"' in line),
            "rule": "sweep: %s three-byte groups through Base64::encode and %s four-character groups through "
                    "Base64::decode; per key (two neighbouring coordinates) the set of values seen at each output "
                    "position is one trace event, judged by Codec_Base64!SweepPermitted (singleton = the RFC value; "
                    "MC_Base64!TablesAgree ties the tables to Enc/Dec). "
                    "TLC enumerates every 1- and 2-byte input and every input of <= MaxLen bytes over B3; "
                    "each is encoded and decoded by the real " % (
                        ("ALL 16 777 216" if sweep == 256 else "%d" % (sweep * 65536)),
                        ("ALL 16 777 216" if sweep == 256 else "%d" % (max(1, sweep // 4) * 64 ** 3)))
                    +
                    "library and the event is validated by Trace_Base64; plus inputs of 64 KiB, 32 KiB, ... in every length residue (encoder; thorough: three of them back through the quadratic decoder), plus seeded random inputs up to %d bytes in "
                    "every length residue mod 3 and every position x 9 replacement characters of %d valid texts" % (maxlen, ncorr),
            "checker_cmd": "tlc MC_Base64 (%s.cfg); rwsv base64; tlc Trace_Base64" % cfg,
        }
        ev["assumptions"] = ["TLC, the Json community module and the harness projector (bytes -> int arrays) are trusted",
                             "decoder inputs are UTF-8 strings (its API takes String)"]
        ev["wall_s"] = round(time.time() - t0, 1)
        return verdict.finish(ev)
