"""C07 — the worker pool runs every task exactly once, N at a time, without deadlock.
spec: Pool.tla (+ MC_Pool, Gen_Pool, Trace_Pool).  Binding in both directions:
  spec -> code: TLC-simulated behaviours of Pool are replayed step by step on the real ThreadPool (hooks as gates);
  code -> spec: free-running pools with perturbed timing are logged at the hook points and validated by Trace_Pool."""
import json
import os
import random
import time
from concurrent.futures import ThreadPoolExecutor
import vlib

MC_OK = ["n3", "n3slow", "n3twoslow", "n3slow2", "n2", "n2slow", "n1", "n3empty", "hist"]
MC_MUTANTS = ["mut_holdlock", "mut_oneshot", "mut_fewer", "mut_holdlock_slow", "mut_noguard", "reach"]

QUICK_MENU = [
    (1, ["instant", "long", "rdv", "instant"]),
    (2, ["rdv", "rdv", "instant", "long"]),
    (2, ["rdv", "long", "rdv", "rdv", "instant", "rdv", "instant", "instant"]),
    (3, ["rdv", "rdv", "rdv", "instant", "long", "instant"]),
    (3, ["long", "instant", "long", "rdv", "rdv", "rdv", "instant", "instant", "instant", "rdv", "rdv", "rdv"]),
    (3, []),
    (4, ["rdv", "rdv", "rdv", "rdv", "instant", "long", "rdv", "rdv", "rdv", "rdv"]),
    (8, ["rdv"] * 8 + ["instant", "long", "instant", "instant"]),
    # bursts far longer than the pool is wide (a bounded queue must not shed work): 4N and more tasks
    (1, ["instant"] * 24),
    (5, ["rdv"] * 5 + ["instant"] * 10 + ["rdv"] * 5 + ["instant"] * 5),
    (6, ["instant"] * 40),
]
BIG = (8, ["rdv"] * 8 + ["instant", "long", "instant", "instant"] + ["rdv"] * 8 + ["instant"] * 12)   # 4N tasks: thorough tier


def thorough_menu(rng):
    menu = list(QUICK_MENU) + [BIG]
    for n in range(1, 9):
        for _ in range(2):
            t = rng.randint(0, 4 * n)
            kinds = []
            while len(kinds) < t:
                r = rng.random()
                if r < 0.3 and len(kinds) + n <= t:
                    kinds += ["rdv"] * n          # rendezvous tasks come in groups of N (else the last group cannot complete)
                elif r < 0.45:
                    kinds.append("long")
                else:
                    kinds.append("instant")
            # interleave a little while keeping FIFO-completability: long tasks never in front of an incomplete rdv group
            menu.append((n, kinds))
    return menu


def tla_seq(kinds):
    return "<<" + ", ".join('"%s"' % k for k in kinds) + ">>"


def one_config(idx, n, kinds, sc, nsim, nfree, seed, step_timeout_ms, flavours=None, extra_args=None):
    name = "c%d" % idx
    d = sc.path(name)
    os.makedirs(d)
    consts = "CONSTANTS\n  N = %d\n  T = %d\n  Kind <- K\n  HoldLock = FALSE\n  OneShot = FALSE\n  Guarded = TRUE\n  Spawned = %d\n" % (n, len(kinds), n)
    open(os.path.join(d, "GenPool_%s.tla" % name), "w").write(
        "---- MODULE GenPool_%s ----\nEXTENDS Gen_Pool\nK == %s\n====\n" % (name, tla_seq(kinds)))
    open(os.path.join(d, "GenPool_%s.cfg" % name), "w").write(
        "SPECIFICATION GSpec\n" + consts + "INVARIANT EmitBehaviour\nCHECK_DEADLOCK FALSE\n")
    open(os.path.join(d, "TracePool_%s.tla" % name), "w").write(
        "---- MODULE TracePool_%s ----\nEXTENDS Trace_Pool\nK == %s\n====\n" % (name, tla_seq(kinds)))
    open(os.path.join(d, "TracePool_%s.cfg" % name), "w").write(
        "SPECIFICATION TSpec\n" + consts + "INVARIANT TraceSafety Done\nPOSTCONDITION AllConsumed\nCHECK_DEADLOCK FALSE\n")
    gen = vlib.run_tlc("GenPool_%s" % name, workers=1, simulate=nsim, depth=40 + 6 * len(kinds), seed_arg=seed + idx,
                       spec_dir=d, timeout=600, heap="2g")
    if gen.violated:
        raise vlib.ToolError("Gen_Pool run reported %s:\n%s" % (gen.violated, gen.out[-2000:]))
    seen, cases = set(), []
    for c in gen.cases:
        k = json.dumps(c, sort_keys=True)
        if k not in seen:
            seen.add(k)
            cases.append(c)
    cases_path = os.path.join(d, "cases.ndjson")
    vlib.write_ndjson(cases_path, cases)
    trace = os.path.join(d, "trace.ndjson")
    args = ["pool", "--cases", cases_path, "--out", trace, "--free", nfree, "--seed", seed * 100 + idx,
            "--n", n, "--kind", ",".join(kinds), "--step-timeout-ms", step_timeout_ms]
    if flavours:
        args += ["--flavour", ",".join(flavours)]
    if extra_args:
        args += extra_args
    vlib.run_harness(args, timeout=1800)
    tv = vlib.validate_trace("TracePool_%s" % name, trace, spec_dir=d, heap="3g")
    events = vlib.read_ndjson(trace)
    # tasks that ran without a single worker passing a hook point: the instrumented statements of src/thread_pool are
    # gone (a rewrite of the pool needs its hooks and Pool.tla revisited) -- the trace says nothing about C07
    if kinds and any(e["ev"] == "Start" for e in events) and not any(e["ev"] in ("Lock", "Recv") for e in events):
        raise vlib.ToolError("tasks ran but no worker passed a hook point (cfg rws_verif instrumentation of src/thread_pool missing): not a verdict")
    return {"idx": idx, "n": n, "kinds": kinds, "behaviours": len(cases), "free": nfree, "events": len(events),
            "fails": tv.fails, "sample": cases[0] if cases else None, "gen_states": gen.generated,
            "runs": sum(1 for e in events if e["ev"] == "Reset")}


def run(tier, replay):
    t0 = time.time()
    ev = vlib.new_evidence("C07", tier, "model_checking")
    vlib.build_harness()
    rng = random.Random(vlib.seed())
    menu = QUICK_MENU if tier == "quick" else thorough_menu(rng)
    nsim, nfree = (40, 25) if tier == "quick" else (300, 200)
    states = trans = 0
    # 1. the specification itself: safety + liveness for the pinned design, refutation of the spec mutants
    with ThreadPoolExecutor(max_workers=4) as ex:
        futs = {c: ex.submit(vlib.model_check, "MC_Pool", "MC_Pool_" + c, workers=2, heap="2g") for c in MC_OK}
        mfuts = {c: ex.submit(vlib.model_check, "MC_Pool", "MC_Pool_" + c, expect_violation=True, workers=2, heap="2g") for c in MC_MUTANTS}
        for c, f in list(futs.items()) + list(mfuts.items()):
            r = f.result()
            states += r.distinct
            trans += r.generated
    # 1b. the largest instance of the property's quantifier (8 workers, 32 tasks of any kinds) is beyond exhaustive TLC: Apalache
    # shows the safety part inductive there (base case, IndInv => C07Safety; thorough: the step, ~6 min, and the hold-the-lock
    # variant must break it).  Runs beside the replay legs.
    apa_pool = ThreadPoolExecutor(max_workers=2)
    apa = [apa_pool.submit(vlib.apalache_inductive, "PoolApa", "IndInv", step_init="IndInit", implies="C07Safety", step=(tier != "quick"), timeout=1500)]
    if tier != "quick":
        apa.append(apa_pool.submit(vlib.apalache_inductive, "PoolApa", "IndInv", cinit="ConstInitHold", step_init="IndInit", expect_error=True, timeout=1500))
    # 2./3. per configuration: TLC behaviours -> real pool -> Trace_Pool
    results = []
    with vlib.Scratch("c07") as sc:
        with ThreadPoolExecutor(max_workers=4) as ex:
            futs = [ex.submit(one_config, i, n, kinds, sc, nsim, nfree, vlib.seed(), 3000) for i, (n, kinds) in enumerate(menu)]
            # idle time as a dimension: N tasks, then the pool is left alone (35 s; thorough 65 s and 200 s), then 2N+1 more tasks
            for j, secs in enumerate([35] if tier == "quick" else [65, 200]):
                futs.append(ex.submit(one_config, 900 + j, 2, ["rdv", "rdv", "rdv", "rdv", "instant", "rdv", "rdv"], sc, 2, 1, vlib.seed(), 3000,
                                      None, ["--idle-after", 2, "--idle-ms", secs * 1000]))
            for f in futs:
                results.append(f.result())
    for f in apa:
        f.result()          # a ToolError here is a refuted / vacuous specification, not a verdict
    verdict = vlib.Verdict("C07")
    for r in results:
        for f in r["fails"]:
            reason = f["reason"].split(":")[0]
            sig = "%s:%s" % (reason, f["ev"].get("a", f["ev"]["ev"]))
            verdict.reject(sig, {"n": r["n"], "kinds": r["kinds"], "event_index": f["i"], "event": f["ev"],
                                 "reason": f["reason"], "spec_state": f["state"]})
    ev["coverage"] = {
        "states": states, "transitions": trans,
        "traces_validated_against_impl": sum(r["runs"] for r in results),
        "behaviours_replayed": sum(r["behaviours"] for r in results),
        "free_runs": sum(r["free"] for r in results),
        "trace_events": sum(r["events"] for r in results),
        "configurations": [{"n": r["n"], "tasks": len(r["kinds"]), "behaviours": r["behaviours"], "free_runs": r["free"]} for r in results],
        "spec_mutants_refuted": MC_MUTANTS,
        "samples": [r["sample"] for r in results if r["sample"]][:2],
        "rule": "MC_Pool: exhaustive safety+liveness (WF) for N<=3; PoolApa (Apalache): for N = 8 workers and T = 32 tasks of any kinds the strengthened safety invariant holds initially and implies exactly-once / no-loss / no-duplicate / mutual exclusion / FIFO (thorough: it is inductive, i.e. holds in every reachable state of that instance, and the hold-the-lock variant breaks the step); Gen_Pool: seeded TLC simulation, each distinct behaviour replayed "
                "on the real ThreadPool with every thread gated at the hook points; free runs with seeded perturbation; every run validated by Trace_Pool",
    }
    ev["assumptions"] = ["hook points (cfg rws_verif) are add-only and placed after each critical section",
                         "a replay step not taken within 3 s is a refusal (real steps take microseconds)",
                         "single submitter (as in Server::run)"]
    ev["wall_s"] = round(time.time() - t0, 1)
    return verdict.finish(ev)
