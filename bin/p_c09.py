"""C09 — HEAD and OPTIONS behave consistently with GET."""
import time
import vlib
import static_common as S


def kind_of_path(e):
    segs = e["q"]["segs"]
    if len(segs) == 1 and segs[0] in ("style.css", "script.js", "favicon.svg"):
        return "builtin:" + segs[0]
    if segs in ([], [""]):
        return "root"
    return "static"


def signature(clauses, e):
    q = e["q"]
    return "%s:%s:%s:%s:status=%s" % (",".join(clauses), q["entry"], q["method"], kind_of_path(e), e["r"].get("status"))


def run(tier, replay):
    t0 = time.time()
    ev = vlib.new_evidence("C09", tier, "model_checking")
    vlib.build_harness()
    with vlib.Scratch("c09") as sc:
        mc = vlib.model_check("MC_Static", "MC_Static", workers=4, heap="4g")
        worlds, cases, ncases, gen = S.generate("c09", 2, sc)
        trace = S.serve(worlds, cases, sc, obs="full", triple=True, stats=False)
        verdict = vlib.Verdict("C09")
        tv = S.judge("C09", "Trace_Static_c09", trace, verdict, signature, heap="12g")
        wcases = sc.path("wire_cases.ndjson")
        S.sample_cases(cases, wcases, every=1 if tier == "thorough" else 3)
        trace3 = S.serve(worlds, wcases, sc, obs="full", triple=True, stats=False, tag="w", wire=True)
        tv3 = S.judge("C09", "Trace_Static_c09", trace3, verdict, signature, heap="12g")
        n1 = S.count_events(trace)
        n3 = S.count_events(trace3)
        ev["coverage"] = {
            "states": mc.distinct + gen.distinct, "transitions": mc.generated + gen.generated,
            "traces_validated_against_impl": n1["Serve"] + n3["Serve"], "wire_requests": n3["Serve"], "triples": ncases,
            "samples": S.sample_events(trace, 3),
            "rule": "[triples also with query / fragment spellings] Gen_Static(c09): every servable path of two menu worlds (files, directory indexes +/- slash, .html fallbacks, through links, built-in "
                    "assets) x {prod, legacy} x {no Range, bytes=0-0} x {no Origin, Origin} x {plain, preflight headers}; each case is run as GET, HEAD, OPTIONS "
                    "and the HEAD/OPTIONS responses are related to the GET response by C09Violations (Trace_Static keeps the last GET per entry point)",
        }
        ev["assumptions"] = ["default configuration (CORS allow-all) in the harness process", "timestamp header Date-Unix-Epoch-Nanos excluded from the header comparison"]
        ev["wall_s"] = round(time.time() - t0, 1)
        return verdict.finish(ev)
