"""C06 — serving capacity survives any history of connections.
In-process leg: the real ThreadPool runs the very closure body of Server::run (Server::process over scripted mock transports:
garbage, handler panic, read / write / flush faults, short writes, thousands of header lines) and jobs that fail internally,
followed by a probe of N rendezvous tasks; validated against Pool.tla with Guarded = TRUE (a failing job does not end its worker).
Wire leg: the real binary with --thread-count=N, histories of real connections, then N-1 idle sockets + one request (Trace_Server)."""
import random
import time
from concurrent.futures import ThreadPoolExecutor
import vlib
import p_c07
import wire_common as W

FLAVOURS = ["conn_ok", "conn_garbage", "conn_empty", "conn_bad_length", "conn_no_path", "conn_many_lines", "conn_handler_panic",
            "conn_read_err", "conn_write_err", "conn_write_err_mid", "conn_flush_err", "conn_short"]


def history(n, length, rng):
    """history of `length` connections / failing jobs, then the probe: N rendezvous tasks (need N live workers), twice"""
    kinds, flavours = [], []
    for _ in range(length):
        if rng.random() < 0.25:
            kinds.append("panic"); flavours.append("job_panics")
        else:
            kinds.append("instant"); flavours.append(rng.choice(FLAVOURS))
    kinds += ["rdv"] * n + ["instant"] + ["rdv"] * n
    flavours += ["probe"] * n + ["conn_ok"] + ["probe"] * n
    return kinds, flavours


def run(tier, replay):
    t0 = time.time()
    ev = vlib.new_evidence("C06", tier, "model_checking")
    vlib.build_harness()
    rng = random.Random(vlib.seed())
    states = trans = 0
    for c, expect in [("hist", False), ("mut_noguard", True)]:
        r = vlib.model_check("MC_Pool", "MC_Pool_" + c, expect_violation=expect, workers=2, heap="2g")
        states += r.distinct; trans += r.generated
    r = vlib.model_check("MC_Server", "MC_Server", workers=4, heap="4g")
    states += r.distinct; trans += r.generated
    vlib.model_check("MC_Server", "MC_Server_noguard", expect_violation=True, workers=4, heap="4g")
    menu = []
    sizes = [(1, 3), (2, 5), (2, 8), (3, 7), (4, 9)] if tier == "quick" else [(n, l) for n in (1, 2, 3, 4, 8) for l in (3, 8, 20, 50)]
    for n, l in sizes:
        kinds, flavours = history(n, l, rng)
        menu.append((n, kinds, flavours))
    # every flavour at least once, deterministic
    k, f = ["instant"] * len(FLAVOURS) + ["panic", "rdv", "rdv"], FLAVOURS + ["job_panics", "probe", "probe"]
    menu.append((2, k, f))
    nsim, nfree = (12, 10) if tier == "quick" else (60, 60)
    results = []
    with vlib.Scratch("c06") as sc:
        with ThreadPoolExecutor(max_workers=4) as ex:
            futs = [ex.submit(p_c07.one_config, i, n, kinds, sc, nsim, nfree, vlib.seed(), 4000, flavours) for i, (n, kinds, flavours) in enumerate(menu)]
            # a quiet period is part of a history: connections, nothing for 35 s (thorough: 65 s and 200 s), then the probes
            for j, secs in enumerate([35] if tier == "quick" else [65, 200]):
                kinds_i = ["instant", "instant", "rdv", "rdv", "instant", "rdv", "rdv"]
                flav_i = ["conn_ok", "conn_garbage", "probe", "probe", "conn_ok", "probe", "probe"]
                menu.append((2, kinds_i, flav_i))
                futs.append(ex.submit(p_c07.one_config, 900 + j, 2, kinds_i, sc, 2, 1, vlib.seed(), 4000, flav_i, ["--idle-after", 2, "--idle-ms", secs * 1000]))
            for fu in futs:
                results.append(fu.result())
        verdict = vlib.Verdict("C06")
        for r, (n, kinds, flavours) in zip(results, menu):
            for f in r["fails"]:
                reason = f["reason"].split(":")[0]
                sig = "pool:%s:%s" % (reason, f["ev"].get("a", f["ev"]["ev"]))
                verdict.reject(sig, {"leg": "in-process pool", "n": n, "kinds": kinds, "flavours": flavours, "event_index": f["i"], "event": f["ev"],
                                     "reason": f["reason"], "spec_state": f["state"]})
        wire = W.run_histories(sc, tier, verdict)
    ev["coverage"] = {
        "states": states, "transitions": trans,
        "traces_validated_against_impl": sum(r["runs"] for r in results) + wire["histories"],
        "pool_histories": len(menu), "behaviours_replayed": sum(r["behaviours"] for r in results), "free_runs": sum(r["free"] for r in results),
        "wire_histories": wire["histories"], "wire_connections": wire["connections"],
        "flavours": FLAVOURS,
        "samples": [{"n": menu[0][0], "kinds": menu[0][1], "flavours": menu[0][2]}, wire["sample"]],
        "rule": "[wire: valid requests incl. bodies, each answer compared with the fresh server's, final sweep 2N x 5; extreme-answer requests] Pool.tla with task kind panic and Guarded = TRUE (the no-guard variant is refuted by TLC: NoWorkerLost); histories of 3..%d jobs drawn from 12 connection "
                "flavours run by the closure body of Server::run on the real ThreadPool + internally failing jobs, each followed by two probes of N rendezvous tasks; replayed "
                "schedules and free runs validated by Trace_Pool. Wire: Server.tla / Trace_Server on histories of real connections against the real binary" % (9 if tier == "quick" else 50),
    }
    ev["assumptions"] = ["transport faults a real socket cannot be made to produce (failing flush, write error at byte i) are reached through the mock transport only",
                         "a probe that does not complete within 4 s is a lost worker"]
    ev["wall_s"] = round(time.time() - t0, 1)
    return verdict.finish(ev)
