"""Shared pipeline of the library codec checks (C14 - C17): Gen_Codec -> rwsv codec -> Trace_Codec."""
import json
import time
import vlib


def run_codec(prop, mode, tier, describe, signature, rule, assumptions, extra_cases=None):
    t0 = time.time()
    ev = vlib.new_evidence(prop, tier, "model_checking")
    vlib.build_harness()
    with vlib.Scratch(mode) as sc:
        cases = sc.path("cases.ndjson")
        with open(cases, "w") as sink:
            gen = vlib.run_tlc("Gen_Codec", "Gen_Codec_" + mode, workers=4, heap="4g", case_sink=sink)
        if not gen.ok:
            raise vlib.ToolError("Gen_Codec(%s) failed:\n%s" % (mode, gen.out[-2000:]))
        if extra_cases:
            with open(cases, "a") as f:
                for c in extra_cases(tier, vlib.seed()):
                    f.write(json.dumps(c) + "\n")
        trace = sc.path("trace.ndjson")
        vlib.run_harness(["codec", "--cases", cases, "--out", trace], timeout=3000)
        tv = vlib.validate_trace("Trace_Codec", trace, heap="8g")
        verdict = vlib.Verdict(prop)
        events = vlib.read_ndjson(trace)
        notes, note_samples = {}, []
        for f in tv.fails:
            if any(p.startswith("TOOL.") for p in f["props"]):
                raise vlib.ToolError("Trace_Codec: %s" % json.dumps(f))
            e = events[f["i"] - 1]
            mine = sorted(p for p in f["props"] if p.startswith(prop + "."))
            if mine:
                verdict.reject(signature(mine, e), describe(mine, e))
            # E.*: behaviour the properties leave free, pinned by Endpoints.tla; reported in the evidence, never a violation
            for p in f["props"]:
                if p.startswith("E."):
                    notes[p] = notes.get(p, 0) + 1
                    if len(note_samples) < 5:
                        note_samples.append({"clause": p, "request": {k: e["req"][k] for k in ("method", "pcls", "pvar", "ctype")}, "observed": e["obs"]})
        ev["coverage"] = {
            "states": gen.distinct, "transitions": gen.generated,
            "traces_validated_against_impl": tv.done[0], "spec_cases_replayed": len(gen.cases),
            "samples": [describe([], events[0]), describe([], events[len(events) // 2])],
            "rule": rule,
        }
        n_endpoint = sum(1 for e in events if e.get("op") == "endpoint")
        if n_endpoint:
            ev["coverage"]["endpoint_requests_validated"] = n_endpoint
            ev["coverage"]["behaviour_notes"] = notes
            ev["coverage"]["behaviour_note_samples"] = note_samples
            vlib.log("[endpoints] %d requests to the dynamic endpoints validated against Endpoints.tla, %d deviation note(s) %s" % (n_endpoint, sum(notes.values()), json.dumps(notes)))
            for sm in note_samples:
                vlib.log("[endpoints] note " + json.dumps(sm)[:600])
        ev["assumptions"] = assumptions
        ev["wall_s"] = round(time.time() - t0, 1)
        return verdict.finish(ev)


def short(v, n=160):
    s = json.dumps(v)
    return s if len(s) <= n else s[:n] + "..."
