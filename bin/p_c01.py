"""C01 — no request target makes the server return a file outside the served directory."""
import time
import vlib
import static_common as S


def signature(clauses, e):
    q = e["q"]
    segs = q["segs"]
    shape = "climb" if ".." in segs else "noclimb"
    return "%s:%s:%s:lead=%s" % (",".join(clauses), q["entry"], shape, q["lead"])


def run(tier, replay):
    t0 = time.time()
    ev = vlib.new_evidence("C01", tier, "model_checking")
    vlib.build_harness()
    k = 2 if tier == "quick" else 3
    with vlib.Scratch("c01") as sc:
        mc = vlib.model_check("MC_Static", "MC_Static", workers=4, heap="4g")
        vlib.model_check("MC_Static", "MC_Static_impl", expect_violation=True, workers=4, heap="4g")
        worlds, cases, ncases, gen = S.generate("c01", k, sc)
        trace = S.serve(worlds, cases, sc, obs="hi", stats=True)
        verdict = vlib.Verdict("C01")
        tv = S.judge("C01", "Trace_Static_c01", trace, verdict, signature)
        # record direction: seeded random deeper worlds with climbing targets towards every planted secret
        rw, rc = sc.path("rworlds.ndjson"), sc.path("rcases.ndjson")
        vlib.run_harness(["random-worlds", "--seed", vlib.seed(), "--count", 6 if tier == "quick" else 60, "--cls", "ascii",
                          "--worlds-out", rw, "--cases-out", rc])
        trace2 = S.serve(rw, rc, sc, obs="hi", stats=True, tag="r")
        tv2 = S.judge("C01", "Trace_Static_c01", trace2, verdict, signature)
        wcases = sc.path("wire_cases.ndjson")
        S.sample_cases(cases, wcases, every=1 if tier == "thorough" else 7)
        trace3 = S.serve(worlds, wcases, sc, obs="hi", stats=False, tag="w", wire=True)
        tv3 = S.judge("C01", "Trace_Static_c01", trace3, verdict, signature)
        n1, n2 = S.count_events(trace), S.count_events(trace2)
        n3 = S.count_events(trace3)
        ev["coverage"] = {
            "states": mc.distinct + gen.distinct, "transitions": mc.generated + gen.generated,
            "traces_validated_against_impl": n1["Serve"] + n2["Serve"] + n3["Serve"], "wire_requests": n3["Serve"],
            "spec_cases_replayed": ncases, "random_world_requests": n2["Serve"],
            "fs_model_checks_against_os": n1["Stat"] + n2["Stat"],
            "worlds": n1["Mount"] + n2["Mount"],
            "samples": S.sample_events(trace, 3),
            "rule": "[trees: directories inside the root named ..data, v1..v2, ..., a.. and climbing skeletons through them] Gen_Static(c01): all targets of <= %d segments over a 15-token alphabet (.., ., empty, names, secrets, links, %%2e%%2e) on the "
                    "8 worlds of depth <= 2, plus climbing skeletons x {9 leads, 5 query/fragment forms, 3 methods, 5 Range forms} on all 12 worlds, "
                    "x {prod, legacy}; plus seeded random worlds; each response judged by C01Violations (secret byte classes, climbing => error)" % k,
        }
        ev["assumptions"] = ["secret files use reserved byte values that occur nowhere else; a disclosed byte is recognised by value",
                             "Fs!Resolve is validated against the OS (Stat events) on every path of the run"]
        ev["wall_s"] = round(time.time() - t0, 1)
        return verdict.finish(ev)
