HOOKS = {
    "guard": "--cfg rws_verif",
    "enable": "RUSTFLAGS / harness/.cargo/config.toml: --cfg rws_verif --check-cfg cfg(rws_verif); the harness crate builds /repo/src/main.rs as a library target with the flag on, bin/setup builds the rws binary with it",
    "baseline_off_cmd": "cd /repo && cargo test --workspace --no-fail-fast --offline -- --test-threads=1",
    "source_commits": ["63be983"],
    "add_only": True,
}
ENGINES = [
    {"name": "tlc+rwsv", "path": "/verif/bin/check", "serves_properties": [],
     "kind_free_text": "explicit TLA+ specification (spec/*.tla) model-checked with TLC; TLC-generated cases replayed on the real code by the Rust harness rwsv (harness/), recorded traces validated by TLC against spec/Trace_*.tla"},
]
NOTES = ("Every check: build from /repo's working tree -> tlc MC_* -> tlc-generated cases -> rwsv (real code) -> tlc Trace_* -> verdict. "
         "Exit 2 = tool error (never a VIOLATION). Known findings: /verif/known_findings.json.")
NOT_APPLICABLE = {}
CHECKS = {
    "C07": {
        "level": "model_checking",
        "technique": "TLA+ spec of the pool (Pool.tla) model-checked by TLC (safety + liveness, spec mutants refuted); TLC-simulated schedules replayed step by step on the real ThreadPool through cfg(rws_verif) gates; free-running hook traces validated by TLC (Trace_Pool)",
        "text": "Exhaustive TLC check of exactly-once / no-loss / FIFO / mutual exclusion and of completion under weak fairness (rendezvous of N, slow tasks) for N<=3; three spec mutants must be refuted. Every distinct simulated behaviour is replayed on the real pool with all threads gated at the hook points (a spec-legal step the code does not take = refusal), and free runs with seeded timing perturbation for N in 1..8 are validated event by event, with quiescence checks from the closures' own counters.",
        "note": "Trusted: TLC, hook placement (add-only, after each critical section), 3 s refusal timeout, single submitter.",
    },
    "C18": {
        "level": "model_checking",
        "technique": "TLA+ spec of RFC 4648 (Codec_Base64) model-checked by TLC; TLC-enumerated inputs replayed on Base64::encode/decode; trace validation by TLC",
        "text": "TLC checks the streaming encoder/decoder model against the position-wise RFC 4648 definition for every 1- and 2-byte input and all inputs over a boundary byte set; every such input, spec-generated corruptions and seeded random inputs are run through the real library and each recorded call is validated against the spec (thorough: all 16.8M 3-byte groups).",
        "note": "Trusted: TLC, Json module, harness projector (bytes -> int arrays). Decoder inputs are UTF-8 strings.",
    },
}
for e in ENGINES:
    e["serves_properties"] = sorted(CHECKS)
