HOOKS = {
    "guard": "--cfg rws_verif",
    "enable": "RUSTFLAGS / harness/.cargo/config.toml: --cfg rws_verif --check-cfg cfg(rws_verif); the harness crate builds /repo/src/main.rs as a library target with the flag on, bin/setup builds the rws binary with it",
    "baseline_off_cmd": "cd /repo && cargo test --workspace --no-fail-fast --offline -- --test-threads=1",
    "source_commits": ["63be983"],
    "add_only": True,
}
ENGINES = [
    {"name": "tlc+rwsv", "path": "/verif/bin/check", "serves_properties": [],
     "kind_free_text": "explicit TLA+ specification (spec/*.tla) model-checked with TLC; TLC-generated cases replayed on the real code by the Rust harness rwsv (harness/), recorded traces validated by TLC against spec/Trace_*.tla"},
]
NOTES = ("Every check: build from /repo's working tree -> tlc MC_* -> tlc-generated cases -> rwsv (real code) -> tlc Trace_* -> verdict. "
         "Exit 2 = tool error (never a VIOLATION). Known findings: /verif/known_findings.json.")
NOT_APPLICABLE = {}
CHECKS = {
    "C01": {
        "level": "model_checking",
        "technique": "TLA+ spec of the file tree, POSIX resolution and the lookup (Fs, Static) model-checked by TLC; TLC-enumerated targets x worlds replayed on both real entry points; responses validated by TLC (Trace_Static, C01Violations); Fs model validated against the OS",
        "text": "TLC proves on the design that the contained lookup never selects an outside node except through an owner's link (52k world x path states; the implementation-shaped variant is refuted with /../s0). Every target of <= K segments over a 15-token alphabet on 8 worlds and ~1.4k climbing skeletons x leads/query/fragment/method/Range decorations on 12 worlds run through Server::process and Server::process_request; each response is judged by the spec (reserved secret byte values, climbing => error status). One-segment spellings that only climb if the server decodes them (6 dot spellings x 7 encoded / doubly encoded / back-slash separators) are included. A sample of the cases (thorough: all) is also sent to the real binary over a socket. Seeded random deeper worlds add the code -> spec direction. Directories inside the root whose names contain '..' without being it (..data, v1..v2, ..., a..) are planted in every world and climbed through.",
        "note": "Trusted: TLC, projector (status, set of byte values >= 128), tree materialiser. Fs!Resolve is checked against std::fs::metadata on every path of the run (a mismatch is a tool error).",
    },
    "C02": {
        "level": "model_checking",
        "technique": "TLA+ spec of lookup / content pattern / MIME table (Static, Fs, MimeTable); TLC-derived paths of menu worlds replayed on Server::process; full responses validated by TLC (C02Violations); seeded random worlds",
        "text": "All paths derived from three menu worlds (every node, trailing slash, child of file, near-miss, extra slash, .html stem, through directory links) x 4 query/fragment forms, plus random worlds with non-ASCII names and sizes around 8192/10000: status, exact body bytes (spec-defined pattern with all 256 values), Content-Length, Content-Type by final extension, 404 never another file or a listing. File modification times are spread over every month, year turns, leap days, the epoch, 2^31 / 2^32 seconds and 2100.",
        "note": "Trusted: TLC, projector, materialiser, the MIME table transcribed once from the pinned tree. Reserved routes (/, /style.css, ...) and the statement's silent corner (index-less directory with sibling .html) are left free.",
    },
    "C03": {
        "level": "model_checking",
        "technique": "TLA+ range algebra (Static: InFile/Slice/CRParse/MultiParts) model-checked by TLC (MC_Range); TLC-enumerated Range headers x file lengths replayed on Server::process; 206/416 responses incl. multipart bodies parsed and validated by TLC",
        "text": "Every single range-spec with offsets from {0,1,L-2,L-1,L,L+1,u64max,>u64max,junk} for L in {0,1,2,3,10,8191,8192,8193,70000}, slices whose length is a whole number of 16/32/64 KiB blocks (+-1) on the large file, offsets around 4096 on the 8 KiB files, all pairs (thorough: triples) over a reduced set, whitespace / wrong unit / empty list; in-process and over a socket against the real binary; labels, sizes, exact slice bytes, part order and multipart structure are checked by spec operators on the raw bytes. A 12 MiB file with slices of 1 / 4 / 8 MiB (one byte more or less), 10 and 12 MB (bodies over 1 MiB judged by label, both lengths and a 400-byte sample) and a 2 MiB file with 1100 / 2000 ranges (length x count beyond 2^31 / 2^32).",
        "note": "Known finding KF-C03-end-is-length (Content-Range end = L) is matched by a part-by-part diagnosis computed in the spec (parts in {ok,endL}); any other deviation is a VIOLATION.",
    },
    "C09": {
        "level": "model_checking",
        "technique": "relational trace validation in TLA+ (Trace_Static keeps the last GET response per entry point; C09Violations relates HEAD/OPTIONS to it; Cors!CorsViolations for the preflight grants); TLC-generated servable paths replayed as GET/HEAD/OPTIONS triples on both entry points",
        "text": "Every servable path of two menu worlds (files, directory indexes, .html fallbacks, via links, built-in assets) x {prod, legacy} x Range x Origin x preflight headers is run as GET, HEAD, OPTIONS; HEAD must equal GET in status and headers (timestamp excluded) with the GET body's Content-Length and no body; OPTIONS must be a bodiless success with the configured preflight grants. The triples are also sent with query and fragment spellings of every servable path.",
        "note": "Default configuration (allow-all CORS) in the harness process.",
    },
    "C04": {
        "level": "exploration",
        "technique": "TLA+ connection state machine (Conn.tla) model-checked by TLC; TLC-generated structure-aware mutations of requests (Mutation.tla, Gen_Conn) x handlers x transport scripts replayed on Server::process in child processes; every transport call validated by TLC as a Conn step (Trace_Conn)",
        "text": "Every single mutation (thorough: pairs) of 20 seed requests, three application handlers and 60 transport scripts; a panic, abort (stack overflow), a call that never returns (outcome hang: re-reading an exhausted transport, or 45 s without progress) or a missing/incomplete answer has no action in Conn and is rejected; unparseable request lines and handler errors must yield an error status. The space is unbounded, so this is exploration of a structured space, not exhaustive. 161 registered request header / value pairs (every Sec-Fetch-Dest destination, credentials schemes with and without parameters, ...) x 3 targets x GET/HEAD unmutated; feedback requests (a header derived from the server's own answer); an extreme-answer request (400 ranges of a 6 MiB file) in the wire histories.",
        "note": "Child processes, named thread, 2 MiB stack, dev profile opt-level 0 with overflow checks (what `cargo build` ships). Release-profile stack depth is not sampled.",
    },
    "C05": {
        "level": "model_checking",
        "technique": "TLA+ Conn.tla checked by TLC against an adversarial transport (single-write variant refuted); write_all protocol and HttpMsg!WellFormed (status table, header grammar, framing) validated by TLC on traces of Server::process over scripted short-write transports",
        "text": "All short-write / zero-accept / fault interleavings are model-checked on the design; on the code, 8 seeds x 60 transport scripts (every chunk size class, a short first write at 45 offsets) and all single mutations with hostile header values: each write must offer exactly the unaccepted rest, Ok only after full delivery, and the delivered bytes must be one well-formed response (registered status/phrase, header lines without CR/LF, framing headers once, Content-Length = body, no body for HEAD/OPTIONS, no injected header).",
        "note": "Status phrases follow RFC 9110 (the server never emits the two codes whose phrases differ in the library table).",
    },
    "C10": {
        "level": "model_checking",
        "technique": "HttpMsg!HardeningViolations (TLA+) evaluated by TLC on the End event of every connection of the Gen_Conn space (Trace_Conn)",
        "text": "Every response produced for the C04 input space (200, 204, 206, 400, 404, 416, 500, built-in pages, form endpoints, handler errors) must carry each of the six hardening / no-cache headers exactly once.",
        "note": "Header names compared case-insensitively; Cache-Control must contain no-store, Vary must name Origin, Accept-CH must be non-empty.",
    },
    "C11": {
        "level": "model_checking",
        "technique": "TLA+ CORS policy (Cors.tla CorsViolations; MC_Cors decision procedure with the substring variant refuted); TLC-generated configurations x Origin near-miss table replayed on Server::process; responses validated by TLC (Trace_Cors)",
        "text": "Configurations (switch, 0/1/2/4 origins, credentials, method/header lists, max-age; quick: covering subset, thorough: all 128) x 25 Origin values + absent x 3 methods x preflight headers: grants only for an Origin equal to a configured one, exact preflight lists, echo + credentials in allow-all mode, nothing without Origin.",
        "note": "Policy set through RWS_CONFIG_CORS_* in the process environment, as the server reads it per request; the start-up path that fills those variables is C12's subject.",
    },
    "C06": {
        "level": "model_checking",
        "technique": "TLA+ Pool.tla (task kind panic, Guarded) and Server.tla model-checked by TLC with the unguarded variants refuted; histories replayed on the real ThreadPool running the closure body of Server::run over scripted transports (Trace_Pool), and against the real binary over sockets with capacity probes (Trace_Server)",
        "text": "TLC: NoWorkerLost and Capacity (every connection is eventually done while fewer than N are held) for all interleavings of 5 connections on 2 workers; no-guard variants refuted. In-process: histories of failing jobs and 12 connection flavours (garbage, handler panic, read/write/flush faults, 5000 header lines) followed by two probes of N rendezvous tasks, schedule replay + free runs. Wire: every history of <= 2 (thorough 4) connections over {valid, bad, internal, close} for N in {1,2} plus long random ones; then N-1 silent sockets + one request, N requests in flight, process alive. Valid requests of every history include requests with bodies; each answer is compared byte for byte (timestamp aside) with the fresh server's answer, also in a sweep of 2N x 5 requests after the probes.",
        "note": "Transport faults that a real socket cannot produce are reached through the mock transport on the real pool only. 3-4 s timeouts decide 'not answered'.",
    },
    "C08": {
        "level": "model_checking",
        "technique": "TLA+ Server.tla: EnvFsUnchanged (no action writes shared state) model-checked by TLC; wire traces of the real binary validated by TLC (Trace_Server: concurrent response = serial response taken from a fresh server)",
        "text": "24 distinct requests (files up to 300 KB, ranges, HEAD/OPTIONS, three form endpoints carrying distinct secrets, errors) are each answered alone by a freshly started server; multisets of 16 (thorough 32) are then issued together against servers with 1..16 workers in several arrival patterns; every response must equal its serial reference except the timestamp header and the order of echoed form fields. Clients that abandon a 24 MiB transfer join every second mix, and a one-at-a-time sweep follows the mixes.",
        "note": "Bodies over 600 bytes are compared by length and FNV-1a hash (computed by the projector).",
    },
    "C07": {
        "level": "model_checking",
        "technique": "TLA+ spec of the pool (Pool.tla) model-checked by TLC (safety + liveness, spec mutants refuted); TLC-simulated schedules replayed step by step on the real ThreadPool through cfg(rws_verif) gates; free-running hook traces validated by TLC (Trace_Pool)",
        "text": "Exhaustive TLC check of exactly-once / no-loss / FIFO / mutual exclusion and of completion under weak fairness (rendezvous of N, slow tasks) for N<=3; three spec mutants must be refuted. Every distinct simulated behaviour is replayed on the real pool with all threads gated at the hook points (a spec-legal step the code does not take = refusal), and free runs with seeded timing perturbation for N in 1..8 are validated event by event, with quiescence checks from the closures' own counters. The largest instance of the quantifier (8 workers, 32 tasks of any kinds) is covered symbolically: Apalache shows the strengthened safety invariant of Pool.tla inductive there (thorough tier; quick: base case and implication), and the hold-the-lock variant must break the induction.",
        "note": "Trusted: TLC, hook placement (add-only, after each critical section), 3 s refusal timeout, single submitter.",
    },
    "C12": {
        "level": "model_checking",
        "technique": "TLA+ Config.tla (four-step fold vs declarative Effective) model-checked by TLC with two order mutants refuted; TLC-generated source assignments rendered as environment / rws.config.toml / argv for real start-ups of the binary; observed effective values validated by TLC (Trace_Config)",
        "text": "931 real launches: each of the 11 settings x all 8 subsets of sources (booleans over every value assignment) x 4 file styles (plain; comments + single quotes + arrays; reversed key order + spaces; tight = no blanks, comments glued to values and to the table header, tab, indented comment line, CRLF), short/long flags, hyphen / [cors] table / root-key spellings, full configurations from every subset of sources, and the allow-all switch paired with every other CORS setting across sources; probes: announced+accepting address, thread-count line, buffer echo, CORS grants.",
        "note": "CORS lists are observable only while the effective allow-all switch is off; the thread count is read from the start-up line.",
    },
    "C13": {
        "level": "model_checking",
        "technique": "TLA+ Server.tla (no action writes fs: EnvFsUnchanged model-checked by TLC); wire traces of the real binary under strace validated by TLC (Trace_Server: TSyscall has no action for mutating calls, TManifest requires the manifest unchanged)",
        "text": "All single mutations of 35 seed requests (incl. PUT/DELETE/PATCH/POST uploads, multipart file parts with harmless, existing, nested and outside-pointing filenames, ?name= values pointing outside) and 10 asset/dir targets x 6 methods are sent to the real binary running under strace -f; every path-naming system call is an event, and the full manifest (paths, kinds, sizes, hashes, link targets) of the served tree, a sibling directory and the parent is compared before/after. Failure paths (abandoned 24 MiB transfers, resets after sending, 1100 / 2000 ranges of a 2 MiB file) are part of the traced leg.",
        "note": "Trusted: strace's view of the process, the manifest walker. Paths under /dev, /proc, /sys are exempt.",
    },
    "C14": {
        "level": "model_checking",
        "technique": "TLA+ request codec predicates (Codec_Http: round-trip field equality, accept/reject classes); TLC-enumerated request values and request-line near misses run through Request::generate / Request::parse; results validated by TLC (Trace_Codec)",
        "text": "9 methods x 4 versions, 7 target classes x header lists (0..3, duplicates, 50) with values containing ':' / ': ' / '=' / outer blanks / empty / non-ASCII, 9 body classes incl. bodies beginning with CRLF and all 256 byte values: parse(generate(r)) must equal r field by field and header lookup must ignore case; 60 request-line near misses are classed by the statement (valid / unknown method / unknown version / incomplete / not UTF-8 must be Ok resp. Err; lower-case and extra-space spellings are free).",
        "note": "Values are finite classes chosen to hit every separator the parser splits on; random larger values are the thorough tier's job.",
    },
    "C15": {
        "level": "model_checking",
        "technique": "TLA+ response codec predicates (Codec_Http); TLC-enumerated response values through both serialisers and Response::parse; corrupted serialisations; validated by TLC (Trace_Codec)",
        "text": "Both serialisers x statuses (all 61 registered once, 8 in depth) x header lists x single parts over 12 body classes, all pairs of classes as two parts, 3..6 parts; status, reason, headers, content types, ranges and body bytes must come back; unknown status, mismatched phrase, missing opening/closing boundary, part without blank line must be rejected.",
        "note": "Known finding KF-C15-generate-drops-content-type (pinned by src/response/example).",
    },
    "C16": {
        "level": "model_checking",
        "technique": "TLA+ multipart predicates (Codec_Multipart incl. the precondition 'boundary not in data' on bytes); TLC-enumerated part lists x boundaries through FormMultipartData::generate / parse; validated by TLC (Trace_Codec)",
        "text": "8 boundary classes (short, long, interior hyphens, punctuation, 50 dashes) x 18 body classes (lengths 0..3 over CR/LF/dash/letter, CRLF at either end, binary) as single parts, all pairs as two parts, 3..8 parts; parts must come back in order with headers and exact bodies; three corruptions rejected; browser-style boundary parameter extracted.",
        "note": "Cases whose data contains the boundary are outside the property's precondition and are skipped by the spec, not by the harness.",
    },
    "C17": {
        "level": "model_checking",
        "technique": "TLA+ map round-trip predicate (Codec_Percent); TLC-enumerated name/value maps through URL::build_query/parse_query, FormUrlEncoded, and the two echo endpoints via Server::process; validated by TLC (Trace_Codec)",
        "text": "8.8k maps: names and values over 28 atoms (reserved characters, % followed by hex / non-hex, encodings of encodings, non-ASCII, astral) and all two-atom concatenations, one and two pairs, 0/3/20 pairs, each through four legs; decoded pairs compared as sets. The same run validates 1234 requests to the four dynamic endpoints against Endpoints.tla (dispatch rule and answers; E.* notes in the evidence, never violations).",
        "note": "Known finding KF-C17-double-decoding (in the url-search-params dependency).",
    },
    "C19": {
        "level": "model_checking",
        "technique": "TLA+ predicates over projected values (Codec_Json: round-trip and meaning, integers as lexemes, floats as bit patterns, IEEE equality of zeros); TLC-enumerated values of the supported model through the library's ToJSON/FromJSON traits on harness-defined structs and through serde_json as the independent parser; validated by TLC (Trace_Codec)",
        "text": "All 256 presence subsets of an object with one optional field per kind; every integer class up to the i128 extremes and every float class (zeros, 1e-7, 1e21, 5e-324, f64::MAX, 17-digit values) alone and among other fields; string classes; nested objects to depth 5; arrays of 0/1/64; containers inside containers (an array of objects inside the nested object, an array of integers inside a leaf that sits inside the nested object or inside an array element) with 0..129 elements; unusual property names; typed arrays of every integer width, f32/f64, string, bool, null: text parsed back by the library must equal the value, and an independent parser must read the same meaning.",
        "note": "The RFC 8259 grammar is serde_json's (trusted), not a TLA+ recogniser; integers beyond 64 bits and f64::MAX's 309-digit literal are outside what that parser represents and are not judged on the independent leg. Known finding KF-C19-non-ascii-strings.",
    },
    "C20": {
        "level": "exploration",
        "technique": "TLA+ Totality.tla (a call's outcome is value or error; panic / abort / timeout have no action) with a TLC-enumerated abstract mutation space applied by the harness to valid seed documents; every call validated by TLC (Trace_Totality)",
        "text": "49 parsing entry points (the legacy underscore-prefixed response reader and status-line reader, the request-line and header-line readers, the request-target accessors, percent decoding and the media type lookup among them; JSON object / property / array splitter / typed readers of every width, Base64 text and sequence, multipart, multipart/byteranges body, request, response, header, Content-Disposition, content-range, Range header and range spec, config file, command line, URL and query string, 4 URL-path functions, boundary, form body) x seeds x truncation and 6 byte classes at every position, 24 byte classes at 13 relative positions, deletion, duplication, nesting / long lines / repeated delimiters up to 20 000, line-ending variants, repetition of the seed 1000x, every number replaced by 32 boundary values, plus seeded random strings; each call on a 2 MiB-stack thread with a watchdog in a child process.",
        "note": "Unbounded input space: exploration. Invalid UTF-8 cannot be passed to String-taking entry points. Known findings KF-C20-url-parse-dependency-unwrap (panic inside the url-build-parse dependency, also reached through Request::get_uri_path / get_uri_query) and KF-C20-legacy-response-reader (Response::_parse_response unwraps at every step and recurses per head line).",
    },
    "C18": {
        "level": "model_checking",
        "technique": "TLA+ spec of RFC 4648 (Codec_Base64) model-checked by TLC; TLC-enumerated inputs replayed on Base64::encode/decode; trace validation by TLC",
        "text": "TLC checks the streaming encoder/decoder model against the position-wise RFC 4648 definition for every 1- and 2-byte input and all inputs over a boundary byte set; every such input, spec-generated corruptions and seeded random inputs are run through the real library and each recorded call is validated against the spec An exhaustive sweep sends all 2^24 three-byte groups through Base64::encode and all 64^4 four-character groups through Base64::decode (quick: 4/256 resp. 1/64 of the first coordinate, every value of the others) and records per pair of neighbouring coordinates the set of values seen at each output position; TLC judges every set (Codec_Base64!SweepPermitted: the singleton RFC 4648 prescribes) and MC_Base64!TablesAgree ties the tables to Enc/Dec.",
        "note": "Trusted: TLC, Json module, harness projector (bytes -> int arrays). Decoder inputs are UTF-8 strings.",
    },
}
for e in ENGINES:
    e["serves_properties"] = sorted(CHECKS)
