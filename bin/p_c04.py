"""C04 — every connection is answered; no input can crash the server."""
import time
import vlib
import conn_common as C


def signature(clauses, b, e):
    where = e.get("loc") or ("signal=%s" % e.get("signal") if e.get("outcome") == "abort" else "")
    return "%s:%s:%s" % (",".join(clauses), e.get("outcome"), where)


def run(tier, replay):
    t0 = time.time()
    ev = vlib.new_evidence("C04", tier, "exploration")
    vlib.build_harness()
    with vlib.Scratch("c04") as sc:
        mc = vlib.model_check("MC_Conn", "MC_Conn", workers=2, heap="2g")
        vlib.model_check("MC_Conn", "MC_Conn_impl", expect_violation=True, workers=2, heap="2g")
        paths, total = [], 0
        gens = []
        for mode in (["single", "scripts"] if tier == "quick" else ["single", "scripts", "pairs"]):
            p, n, g = C.generate(mode, sc)
            paths.append(p)
            total += n
            gens.append(g)
        cases = C.concat(paths, sc.path("all_cases.ndjson"))
        trace = C.run_conn(cases, sc, obs="head")
        verdict = vlib.Verdict("C04")
        tv = C.judge("C04", "Trace_Conn_c04", trace, verdict, signature, heap="12g")
        n = C.count(trace)
        # wire: the real binary on both loopback address families; every connection of a short history must be answered
        import wire_common as W
        hist = ["valid", "bad", "internal", "valid", "heavy", "bad", "bad", "internal", "valid"]
        wire_conns = W.run_fixed_histories(sc, [{"n": 2, "hist": hist}, {"n": 2, "hist": hist, "ip6": True}, {"n": 1, "hist": hist[:4], "ip6": True}], verdict, "C04")
        ev["coverage"] = {
            "wire_connections": wire_conns,
            "evaluations": n["End"], "distinct_nontrivial": total,
            "states": mc.distinct + sum(g.distinct for g in gens), "transitions": mc.generated + sum(g.generated for g in gens),
            "traces_validated_against_impl": n["End"], "transport_write_events": n["Write"],
            "process_aborts_observed": n["abort"], "panics_observed": n["panic"],
            "samples": C.samples(trace, 3),
            "rule": "[plus 161 registered request header / value pairs x 3 targets x GET/HEAD unmutated, feedback requests derived from the server's own answers, and a 400-range request of a 6 MiB file in the wire histories] Gen_Conn over Mutation.tla: 20 seed requests (9 methods, 4 versions, target classes, Range/Origin/Content-Length/Content-Type, the three form "
                    "endpoints) x 3 handlers (built-in, error-returning, multi-range); every single mutation (replace by role alphabet, delete, duplicate, truncate at every token)%s; "
                    "8 seeds x transport scripts (chunk sizes, short first write at 45 offsets, zero accept, write/flush/read faults); each case is one distinct document; every "
                    "call on the transport is validated as a step of Conn, the End by C04 clauses (no crash, answered, error status where required)" % ("" if tier == "quick" else "; all pairs on 3 seeds"),
        }
        ev["assumptions"] = ["each case runs in a child process on a named thread with a 2 MiB stack (dev profile, overflow checks on)",
                             "the input space is unbounded: this is an exploration of a structured mutation space, not a proof"]
        ev["wall_s"] = round(time.time() - t0, 1)
        return verdict.finish(ev)
