"""C10 — every response carries the hardening and no-cache headers."""
import time
import vlib
import conn_common as C


def signature(clauses, b, e):
    return "%s:%s:status=%s:script=%s" % (",".join(clauses), e.get("outcome"), e.get("r", {}).get("status"), b.get("script", {}).get("kind"))


def run(tier, replay):
    t0 = time.time()
    ev = vlib.new_evidence("C10", tier, "model_checking")
    vlib.build_harness()
    with vlib.Scratch("c10") as sc:
        mc = vlib.model_check("MC_Conn", "MC_Conn", workers=2, heap="2g")
        vlib.model_check("MC_Conn", "MC_Conn_impl", expect_violation=True, workers=2, heap="2g")
        paths, total, gens = [], 0, []
        # (pairs of mutations are explored by C04 and C05; for the six headers the thorough tier adds all CORS configurations instead)
        for mode in ["single", "scripts"]:
            p, n, g = C.generate(mode, sc)
            paths.append(p); total += n; gens.append(g)
        cases = C.concat(paths, sc.path("all_cases.ndjson"))
        trace = C.run_conn(cases, sc, obs="head")
        verdict = vlib.Verdict("C10")
        tv = C.judge("C10", "Trace_Conn_c10", trace, verdict, signature, heap="12g")
        n = C.count(trace)
        # the same six headers on the responses produced under every CORS configuration of the C11 generator (explicit origins,
        # credentials, method / header lists), in-process and from a real server started with that configuration
        ccases = sc.path("cors_cases.ndjson")
        with open(ccases, "w") as sink:
            geng = vlib.run_tlc("Gen_Cors", "Gen_Cors", workers=4, heap="4g", case_sink=sink)
        if not geng.ok:
            raise vlib.ToolError("Gen_Cors failed:\n" + geng.out[-2000:])
        ncors = 0
        for tag, extra, every in (("", [], 7 if tier == "quick" else 1), ("w", ["--bin", vlib.build_rws_binary()], 23 if tier == "quick" else 3)):
            sub = sc.path("cors_sub_%s.ndjson" % (tag or "p"))
            with open(ccases) as f, open(sub, "w") as o:
                for k, line in enumerate(f):
                    if k % every == 0:
                        o.write(line)
            ctrace = sc.path("cors_trace%s.ndjson" % tag)
            vlib.run_harness(["cors", "--cases", sub, "--out", ctrace, "--scratch", sc.path("csite" + tag)] + extra, timeout=3000)
            tvc = vlib.validate_trace("Trace_Cors", ctrace, cfg="Trace_Cors_c10", heap="8g")
            evs = vlib.read_ndjson(ctrace)
            ncors += sum(1 for e in evs if e["ev"] == "Req")
            cur = None
            cfg_at = {}
            for i, e in enumerate(evs, 1):
                if e["ev"] == "Config":
                    cur = e["cfg"]
                cfg_at[i] = cur
            for f in tvc.fails:
                e = evs[f["i"] - 1]
                c = cfg_at[f["i"]]
                verdict.reject("%s:cors_config:all=%s:origin=%s" % (",".join(sorted(f["props"])), c["all"], "yes" if e["q"]["has_origin"] else "no"),
                               {"clauses": sorted(f["props"]), "surface": "wire" if tag else "in-process", "q": e["q"],
                                "cfg": {k: c[k] for k in ("all", "origins", "creds", "methods", "headers", "maxage")},
                                "headers": [[h["n"], h["v"]] for h in e["r"]["hs"]][:30]})
        ev["coverage"] = {
            "cors_configuration_responses": ncors,
            "states": mc.distinct + sum(g.distinct for g in gens), "transitions": mc.generated + sum(g.generated for g in gens),
            "traces_validated_against_impl": n["End"], "transport_write_events": n["Write"], "spec_cases_replayed": total,
            "samples": C.samples(trace, 3),
            "rule": "MC_Conn: Conn against an adversarial transport (all short-write/zero/fault interleavings for responses <= 6 bytes), the single-write variant refuted; "
                    "Gen_Conn: all single mutations of 20 seeds (hostile Origin / Access-Control-Request-* / Range / Content-Type values with CR, LF, NUL, colons, fake header and "
                    "status lines) + 8 seeds x 60 transport scripts; every write call validated as a Conn step (write_all protocol), accepted bytes judged by HttpMsg!WellFormed",
        }
        ev["assumptions"] = ["status table and header grammar of HttpMsg.tla are the reference (RFC 9110 phrases)", "short writes are produced by the mock transport through the generic Server::process"]
        ev["wall_s"] = round(time.time() - t0, 1)
        return verdict.finish(ev)
