"""C15 — responses written by the library can be read back by it."""
import codec_common as K
import codec_random as R


def body_class(parts):
    tags = set()
    for p in parts:
        b = p["body"]
        if len(b) == 0:
            tags.add("empty")
        elif b[-2:] == [13, 10]:
            tags.add("ends_crlf")
        elif b[-1:] == [10]:
            tags.add("ends_lf")
        elif b[-1:] == [13]:
            tags.add("ends_cr")
        if len(b) >= 2 and b[:2] == [45, 45]:
            tags.add("starts_dashes")
        if any(x > 127 or x == 0 for x in b):
            tags.add("binary")
    return "+".join(sorted(tags)) or "text"


def signature(clauses, e):
    if e["op"] == "resp_corrupt":
        return "%s:%s" % (",".join(clauses), e["obs"]["outcome"])
    if e["op"] == "resp_status_line":
        return "%s:%s:rel=%s:frame=%s" % (",".join(clauses), e["obs"]["outcome"], e["rel"], e["frame"])
    if e["op"] == "resp_struct":
        return "%s:%s:n=%d:at=%d" % (",".join(clauses), e["obs"]["outcome"], e["n"], e["at"])
    v = e["value"]
    return "%s:%s:ser=%s:parts=%d:%s" % (",".join(clauses), e["obs"]["outcome"], e.get("ser"), len(v["parts"]), body_class(v["parts"]))


def describe(clauses, e):
    if e["op"] == "resp_struct":
        return {"clauses": clauses, "broken": e["brk"], "n": e["n"], "at": e["at"], "doc": e["doc"][:600], "outcome": e["obs"]["outcome"], "msg": e["obs"].get("msg"), "nparts": e["obs"].get("nparts")}
    if e["op"] == "resp_status_line":
        return {"clauses": clauses, "rel": e["rel"], "frame": e["frame"], "line": e["line"], "outcome": e["obs"]["outcome"], "msg": e["obs"].get("msg")}
    if e["op"] == "resp_corrupt":
        return {"clauses": clauses, "class": e["cls"], "variant": e.get("variant"), "outcome": e["obs"]["outcome"], "doc": e.get("doc", "")[:200]}
    return {"clauses": clauses, "serialiser": e.get("ser"), "value": K.short(e["value"], 300), "parsed": K.short(e["obs"].get("parsed"), 300),
            "outcome": e["obs"]["outcome"], "msg": e["obs"].get("msg")}


def run(tier, replay):
    return K.run_codec("C15", "c15", tier, describe, signature,
                       "Gen_Codec(c15): both serialisers (Response::generate_response, Response::generate) x 8 statuses x header lists x single parts over 12 body classes "
                       "(empty, binary 0..255, ending in CR / LF / CRLF, dashes, near-boundary) + all pairs of body classes as two parts + 3..6 parts; all 61 registered statuses; "
                       "Response::parse of the bytes compared field by field; 8 corrupted serialisations must be rejected; for each of the 60 registered statuses x {single, multipart} the status line with one field corrupted "
                       "(phrase of another status, truncated by a character / a word, extended by a character / a word, empty; unregistered code) must be rejected and the exact one accepted",
                       ["Content-Range / Content-Type / Content-Length added by the serialiser are not part of the compared header list (subset comparison)"], extra_cases=R.c15)
