"""C05 — responses are well-formed, self-consistent HTTP and delivered in full."""
import time
import vlib
import conn_common as C


def signature(clauses, b, e):
    return "%s:%s:status=%s:script=%s" % (",".join(clauses), e.get("outcome"), e.get("r", {}).get("status"), b.get("script", {}).get("kind"))


def run(tier, replay):
    t0 = time.time()
    ev = vlib.new_evidence("C05", tier, "model_checking")
    vlib.build_harness()
    with vlib.Scratch("c05") as sc:
        mc = vlib.model_check("MC_Conn", "MC_Conn", workers=2, heap="2g")
        vlib.model_check("MC_Conn", "MC_Conn_impl", expect_violation=True, workers=2, heap="2g")
        # unbounded: the delivery invariants of Conn are inductive for every response length and every short-write pattern
        # (Apalache, SMT); the single-write variant of the pinned tree must break the induction step
        from concurrent.futures import ThreadPoolExecutor
        apa_pool = ThreadPoolExecutor(max_workers=2)
        apa = [apa_pool.submit(vlib.apalache_inductive, "ConnApa", "IndInv"),
               apa_pool.submit(vlib.apalache_inductive, "ConnApa", "IndInv", cinit="ConstInitImpl", expect_error=True)]
        paths, total, gens = [], 0, []
        for mode in (["single", "scripts"] if tier == "quick" else ["single", "scripts", "pairs"]):
            p, n, g = C.generate(mode, sc)
            paths.append(p); total += n; gens.append(g)
        cases = C.concat(paths, sc.path("all_cases.ndjson"))
        trace = C.run_conn(cases, sc, obs="head")
        verdict = vlib.Verdict("C05")
        tv = C.judge("C05", "Trace_Conn_c05", trace, verdict, signature, heap="12g")
        n = C.count(trace)
        for f in apa:
            f.result()          # a ToolError here is a refuted / vacuous specification, not a verdict
        ev["coverage"] = {
            "states": mc.distinct + sum(g.distinct for g in gens), "transitions": mc.generated + sum(g.generated for g in gens),
            "traces_validated_against_impl": n["End"], "transport_write_events": n["Write"], "spec_cases_replayed": total,
            "samples": C.samples(trace, 3),
            "rule": "MC_Conn: Conn against an adversarial transport (all short-write/zero/fault interleavings for responses <= 6 bytes), the single-write variant refuted; ConnApa (Apalache): the delivery invariants are inductive over unbounded lengths, the single-write variant breaks the step; "
                    "Gen_Conn: all single mutations of 20 seeds (hostile Origin / Access-Control-Request-* / Range / Content-Type values with CR, LF, NUL, colons, fake header and "
                    "status lines) + 8 seeds x 60 transport scripts; every write call validated as a Conn step (write_all protocol), accepted bytes judged by HttpMsg!WellFormed",
        }
        ev["assumptions"] = ["status table and header grammar of HttpMsg.tla are the reference (RFC 9110 phrases)", "short writes are produced by the mock transport through the generic Server::process"]
        ev["wall_s"] = round(time.time() - t0, 1)
        return verdict.finish(ev)
