"""Shared machinery of the /verif checks: build, TLC runs, trace validation, verdicts, evidence.

Exit codes of a check: 0 = property held on everything explored (KNOWN-FINDING lines allowed),
1 = VIOLATION line printed with a replay file, 2 = tool error / timeout (never a VIOLATION line).
"""
import fcntl
import json
import os
import re
import shutil
import subprocess
import sys
import tempfile
import time

VERIF = os.path.dirname(os.path.dirname(os.path.abspath(__file__)))
SPEC = os.path.join(VERIF, "spec")
HARNESS = os.path.join(VERIF, "harness")
RWSV = os.path.join(HARNESS, "target", "debug", "rwsv")
RWS_BIN_DIR = os.path.join(VERIF, "target", "rws")
RWS_BIN = os.path.join(RWS_BIN_DIR, "debug", "rws")
EVIDENCE = os.path.join(VERIF, "evidence")
REPLAYS = os.path.join(VERIF, "replays")
KNOWN = os.path.join(VERIF, "known_findings.json")
TLA_CP = "/opt/veriftools/tla/tla2tools.jar:/opt/veriftools/tla/CommunityModules-deps.jar"
REPO = "/repo"


class ToolError(Exception):
    pass


def log(*a):
    print(*a, file=sys.stderr, flush=True)


def seed():
    try:
        return int(os.environ.get("VERIF_SEED", "1"))
    except ValueError:
        return 1


# ----------------------------------------------------------------------------- build

def _locked(path):
    os.makedirs(os.path.dirname(path), exist_ok=True)
    f = open(path, "w")
    fcntl.flock(f, fcntl.LOCK_EX)
    return f


def build_harness():
    """Rebuild the harness (and with it the /repo sources, --cfg rws_verif) from the working tree."""
    lock = _locked(os.path.join(HARNESS, "target", ".verif-build.lock"))
    try:
        lockfile = os.path.join(HARNESS, "Cargo.lock")
        if not os.path.exists(lockfile):
            shutil.copy(os.path.join(REPO, "Cargo.lock"), lockfile)
        env = dict(os.environ, CARGO_NET_OFFLINE="true")
        t = time.time()
        p = subprocess.run(["cargo", "build", "--offline", "--quiet"], cwd=HARNESS, env=env,
                           stdout=subprocess.PIPE, stderr=subprocess.STDOUT, text=True)
        if p.returncode != 0:
            raise ToolError("harness build failed:\n" + p.stdout[-4000:])
        log("[build] harness ok in %.1fs" % (time.time() - t))
    finally:
        lock.close()
    return RWSV


def build_rws_binary():
    """Build the real rws binary (hooks compiled in but inert: no callback installed) for wire-level checks."""
    lock = _locked(os.path.join(RWS_BIN_DIR, ".verif-build.lock"))
    try:
        env = dict(os.environ, CARGO_NET_OFFLINE="true",
                   RUSTFLAGS="--cfg rws_verif --check-cfg cfg(rws_verif) -Awarnings",
                   CARGO_TARGET_DIR=RWS_BIN_DIR)
        t = time.time()
        p = subprocess.run(["cargo", "build", "--offline", "--quiet", "--manifest-path",
                            os.path.join(REPO, "Cargo.toml")], env=env,
                           stdout=subprocess.PIPE, stderr=subprocess.STDOUT, text=True)
        if p.returncode != 0:
            raise ToolError("rws build failed:\n" + p.stdout[-4000:])
        log("[build] rws binary ok in %.1fs" % (time.time() - t))
    finally:
        lock.close()
    return RWS_BIN


def run_harness(args, timeout=1800, cwd=None, env=None):
    t = time.time()
    e = dict(os.environ)
    if env:
        e.update(env)
    p = subprocess.run([RWSV] + [str(a) for a in args], stdout=subprocess.DEVNULL, stderr=subprocess.PIPE,
                       text=True, timeout=timeout, cwd=cwd, env=e)
    if p.returncode != 0:
        raise ToolError("harness %s exited %d:\n%s" % (args[0], p.returncode, p.stderr[-3000:]))
    log("[harness] %s in %.1fs: %s" % (args[0], time.time() - t, p.stderr.strip().splitlines()[-1] if p.stderr.strip() else ""))
    return p


# ----------------------------------------------------------------------------- TLC

class TlcResult:
    def __init__(self):
        self.out = ""
        self.generated = 0
        self.distinct = 0
        self.depth = 0
        self.ok = False
        self.violated = None      # name of violated invariant / property
        self.cases = []           # parsed CASE lines
        self.fails = []           # parsed FAIL lines
        self.done = None          # DONE tuple
        self.coverage = {}        # action -> (distinct, total)
        self.wall = 0.0
        self.lines = []           # parsed other tagged lines


_TAG = re.compile(r'^<<"([A-Z]+)", (.*)>>$')


def _unquote_tla_string(s):
    # TLC prints a string value with \" and \\ escapes
    assert s.startswith('"') and s.endswith('"'), s[:80]
    body = s[1:-1]
    out = []
    i = 0
    while i < len(body):
        c = body[i]
        if c == "\\" and i + 1 < len(body):
            n = body[i + 1]
            out.append({"n": "\n", "t": "\t", "r": "\r", "f": "\f"}.get(n, n))
            i += 2
        else:
            out.append(c)
            i += 1
    return "".join(out)


def apalache_inductive(module, ind_inv, cinit="ConstInit", next_="NextA", init="CInit", expect_error=False, timeout=600,
                       step_init=None, implies=None, step=True):
    """Unbounded check with Apalache: ind_inv holds initially (length 0 from init) and is preserved by one step from ANY
    state satisfying it (length 1 from ind_inv, or from step_init = a generator-friendly operator that includes ind_inv).
    implies: an invariant that must hold in every state satisfying ind_inv (length 0 from step_init).
    step = FALSE: base case and implication only.  expect_error: the step check must fail (vacuity guard on a spec mutant)."""
    md = tempfile.mkdtemp(prefix="rwsv-apa-")
    t = time.time()
    try:
        def run(args):
            cmd = ["apalache-mc", "check", "--out-dir=" + md, "--cinit=" + cinit, "--next=" + next_] + args + [os.path.join(SPEC, module + ".tla")]
            e = dict(os.environ)
            e.pop("JAVA_TOOL_OPTIONS", None)
            e["TMPDIR"] = md   # the launcher's `mktemp -d -t SANY...` otherwise leaves one directory in /tmp per run
            p = subprocess.run(cmd, cwd=md, env=e, stdout=subprocess.PIPE, stderr=subprocess.STDOUT, text=True, timeout=timeout)
            ok = "The outcome is: NoError" in p.stdout
            err = "The outcome is: Error" in p.stdout
            if not ok and not err:
                raise ToolError("apalache-mc gave no verdict on %s:\n%s" % (module, p.stdout[-2000:]))
            return ok
        sinit = step_init or ind_inv
        if not expect_error:
            if not run(["--init=" + init, "--inv=" + ind_inv, "--length=0"]):
                raise ToolError("Apalache: %s!%s does not hold initially (the specification is refuted)" % (module, ind_inv))
            if implies and not run(["--init=" + sinit, "--inv=" + implies, "--length=0"]):
                raise ToolError("Apalache: %s!%s does not imply %s" % (module, ind_inv, implies))
        if step:
            res = run(["--init=" + sinit, "--inv=" + ind_inv, "--length=1"])
            if res == expect_error:
                raise ToolError("Apalache: %s!%s %s (cinit %s)" % (module, ind_inv, "is inductive although the variant must be refuted" if expect_error else "is not inductive", cinit))
        log("[apalache] %s %s with %s: %s, %.1fs" % (module, ind_inv, cinit,
            "refuted as required" if expect_error else ("inductive (unbounded)" if step else "holds initially") + (", implies " + implies if implies else ""), time.time() - t))
    finally:
        shutil.rmtree(md, ignore_errors=True)


def run_tlc(module, cfg=None, workers=4, timeout=900, env=None, simulate=None, depth=None,
            heap="4g", stack="64m", deque=False, coverage=False, seed_arg=None, extra=None,
            case_sink=None, spec_dir=None):
    """Run TLC on spec/<module>.tla with spec/<cfg or module>.cfg; returns TlcResult.
    case_sink: optional open file; CASE lines are written there (one JSON per line) instead of kept in memory."""
    md = tempfile.mkdtemp(prefix="rwsv-tlc-")
    res = TlcResult()
    cfg = cfg or module
    # java.io.tmpdir inside the metadir: TLC otherwise leaves an empty /tmp/tlc-<n> directory behind per run
    jopts = ["-XX:+UseParallelGC", "-Xmx" + heap, "-Xss" + stack, "-DTLA-Library=" + SPEC, "-Djava.io.tmpdir=" + md]
    sdir = spec_dir or SPEC
    if deque:
        jopts.append("-Dtlc2.tool.queue.IStateQueue=StateDeque")
    cmd = ["java"] + jopts + ["-cp", TLA_CP, "tlc2.TLC", "-workers", str(workers), "-metadir", md,
                              "-cleanup", "-noGenerateSpecTE", "-nowarning"]
    if coverage:
        cmd += ["-coverage", "1"]
    if simulate:
        cmd += ["-simulate", "num=%d" % simulate]
        if depth:
            cmd += ["-depth", str(depth)]
        if seed_arg is not None:
            cmd += ["-seed", str(seed_arg)]
    if extra:
        cmd += extra
    cmd += ["-config", os.path.join(sdir, cfg + ".cfg"), os.path.join(sdir, module + ".tla")]
    e = dict(os.environ)
    e.pop("JAVA_TOOL_OPTIONS", None)
    if env:
        e.update({k: str(v) for k, v in env.items()})
    t = time.time()
    try:
        p = subprocess.Popen(cmd, cwd=md, env=e, stdout=subprocess.PIPE, stderr=subprocess.STDOUT, text=True,
                             errors="replace")
        keep = []
        try:
            for line in _iter_lines(p, timeout):
                line = line.rstrip("\n")
                m = _TAG.match(line)
                if m:
                    tag, rest = m.group(1), m.group(2)
                    if tag == "CASE":
                        js = _unquote_tla_string(rest)
                        if case_sink is not None:
                            case_sink.write(js + "\n")
                            res.cases.append(None)
                        else:
                            res.cases.append(json.loads(js))
                        continue
                    if tag == "FAIL":
                        res.fails.append(json.loads(_unquote_tla_string(rest)))
                        continue
                    if tag == "DONE":
                        res.done = [int(x) for x in rest.split(",")]
                        continue
                    res.lines.append((tag, rest))
                    continue
                keep.append(line)
        except subprocess.TimeoutExpired:
            p.kill()
            raise ToolError("TLC timed out after %ds on %s" % (timeout, module))
        p.wait()
        res.out = "\n".join(keep)
        res.wall = time.time() - t
        m = re.search(r"(\d[\d,]*) states generated, (\d[\d,]*) distinct states found", res.out)
        if m:
            res.generated = int(m.group(1).replace(",", ""))
            res.distinct = int(m.group(2).replace(",", ""))
        m = re.search(r"The depth of the complete state graph search is (\d+)", res.out)
        if m:
            res.depth = int(m.group(1))
        if simulate:
            m = re.search(r"(\d[\d,]*) states checked", res.out)
            if m:
                res.generated = res.distinct = int(m.group(1).replace(",", ""))
        m = re.search(r"Invariant (\w+) is violated", res.out)
        if m:
            res.violated = m.group(1)
        m = re.search(r"Temporal propert(y|ies) .*violated", res.out)
        if m and not res.violated:
            res.violated = "temporal"
        if "Deadlock reached" in res.out and not res.violated:
            res.violated = "deadlock"
        res.ok = ("Model checking completed. No error has been found." in res.out) or \
                 (simulate and p.returncode == 0 and "Error:" not in res.out)
        if coverage:
            for m in re.finditer(r"<(\w+) line \d+, col \d+ to line \d+, col \d+ of module (\w+)>: (\d+):(\d+)", res.out):
                res.coverage[m.group(1)] = (int(m.group(3)), int(m.group(4)))
        res.rc = p.returncode
        log("[tlc] %s: %d generated, %d distinct, depth %d, %d cases, %d fails, %.1fs%s" % (
            module, res.generated, res.distinct, res.depth, len(res.cases), len(res.fails), res.wall,
            "" if res.ok else "  (NOT clean: %s)" % (res.violated or "see output")))
        return res
    finally:
        shutil.rmtree(md, ignore_errors=True)


def _iter_lines(p, timeout):
    deadline = time.time() + timeout
    for line in p.stdout:
        if time.time() > deadline:
            raise subprocess.TimeoutExpired(p.args, timeout)
        yield line


def model_check(module, cfg=None, expect_violation=None, **kw):
    """Model-check the specification itself. With expect_violation the run must be refuted
    (spec mutants used as vacuity guards)."""
    r = run_tlc(module, cfg, **kw)
    if expect_violation:
        if r.ok or not r.violated:
            raise ToolError("spec mutant %s/%s was NOT refuted by TLC (vacuous property?)\n%s" % (module, cfg, r.out[-1500:]))
        return r
    if not r.ok:
        raise ToolError("TLC reports an error in the specification %s/%s itself:\n%s" % (module, cfg or module, r.out[-3000:]))
    return r


def validate_trace(module, trace_path, cfg=None, timeout=1800, heap="6g", extra_env=None, spec_dir=None):
    """Validate an ndjson trace recorded from the real code against spec/<module>.tla.
    Returns TlcResult with .fails (rejected events) and .done = [events, nfail]."""
    env = {"TRACE": trace_path}
    if extra_env:
        env.update(extra_env)
    r = run_tlc(module, cfg, workers=1, timeout=timeout, env=env, heap=heap, stack="1g", deque=True, spec_dir=spec_dir)
    if r.done is None or not r.ok:
        raise ToolError("trace validation of %s by %s did not run to the end of the trace:\n%s" % (trace_path, module, r.out[-3000:]))
    return r


# ----------------------------------------------------------------------------- verdicts

def load_known():
    if not os.path.exists(KNOWN):
        return {"findings": [], "fixed": []}
    return json.load(open(KNOWN))


def known_for(prop):
    return [k for k in load_known().get("findings", []) if k["property"] == prop]


class Verdict:
    """Collects rejected cases for one property, splits them into known findings and violations."""

    def __init__(self, prop):
        self.prop = prop
        self.known_hits = {}     # finding id -> count
        self.known_desc = {}
        self.violations = []     # list of dict (replayable)
        self.known = known_for(prop)

    def reject(self, signature, case):
        """signature: a short string computed from the abstract case (input class / call site / history)."""
        for k in self.known:
            if re.fullmatch(k["signature"], signature):
                self.known_hits[k["id"]] = self.known_hits.get(k["id"], 0) + 1
                self.known_desc[k["id"]] = k["what"]
                return False
        self.violations.append({"signature": signature, "case": case})
        return True

    def finish(self, evidence):
        for kid, n in sorted(self.known_hits.items()):
            print("KNOWN-FINDING: property=%s %s (%s; %d case(s) in this run)" % (self.prop, self.known_desc[kid], kid, n))
        evidence["violations"] = len(self.violations)
        evidence.setdefault("coverage", {})["known_finding_hits"] = self.known_hits
        if self.violations:
            os.makedirs(REPLAYS, exist_ok=True)
            path = os.path.join(REPLAYS, "%s-%s-%d.json" % (self.prop, evidence.get("tier", "quick"), seed()))
            by_sig = {}
            for v in self.violations:
                by_sig.setdefault(v["signature"], []).append(v["case"])
            json.dump({"property": self.prop, "n_violations": len(self.violations),
                       "by_signature": {s: c[:20] for s, c in by_sig.items()}}, open(path, "w"), indent=1)
            write_evidence(evidence)
            for s, c in sorted(by_sig.items()):
                log("[violation] %s x%d e.g. %s" % (s, len(c), json.dumps(c[0])[:400]))
            print("VIOLATION property=%s replay=%s" % (self.prop, path))
            return 1
        write_evidence(evidence)
        return 0


def write_evidence(ev):
    os.makedirs(EVIDENCE, exist_ok=True)
    path = os.path.join(EVIDENCE, ev["property_id"] + ".json")
    tmp = path + ".tmp"
    json.dump(ev, open(tmp, "w"), indent=1, sort_keys=True)
    os.replace(tmp, path)


def new_evidence(prop, tier, level):
    return {"property_id": prop, "tier": tier, "seed": seed(), "level": level,
            "coverage": {}, "assumptions": [], "wall_s": 0.0, "violations": 0}


class Scratch:
    """Scratch directory outside /repo and /verif, removed at exit."""

    def __init__(self, tag):
        self.dir = tempfile.mkdtemp(prefix="rwsv-%s-" % tag)

    def path(self, name):
        return os.path.join(self.dir, name)

    def __enter__(self):
        return self

    def __exit__(self, *a):
        if os.environ.get("VERIF_KEEP"):
            log("[scratch] kept " + self.dir)
        else:
            shutil.rmtree(self.dir, ignore_errors=True)


def write_ndjson(path, items):
    with open(path, "w") as f:
        for it in items:
            f.write(json.dumps(it, separators=(",", ":")) + "\n")


def read_ndjson(path):
    with open(path) as f:
        return [json.loads(l) for l in f if l.strip()]
