"""C16 — multipart/form-data bodies round-trip part for part."""
import codec_common as K
import codec_random as R


def body_tag(b):
    if len(b) == 0:
        return "len0"
    tail = "crlf" if b[-2:] == [13, 10] else "lf" if b[-1:] == [10] else "cr" if b[-1:] == [13] else "plain"
    return "len%s_%s" % (len(b) if len(b) <= 3 else "gt3", tail)


def input_tags(v):
    """classification of the INPUT case (boundary and data), used for known-finding signatures"""
    bd = v["boundary"]
    core = bd.lstrip("-")
    stripped = bd.replace("-", "").encode()
    tags = []
    if "-" in core:
        tags.append("interior_hyphen")
    if stripped and any(stripped in bytes(p["body"]) for p in v["parts"]):
        tags.append("stripped_boundary_in_data")
    if any(len(p["body"]) == 0 for p in v["parts"]):
        tags.append("has_empty_body")
    return "+".join(tags) or "none"


def diff_class(v, obs):
    """how the parsed parts differ: only empty bodies came back as CRLF / something else"""
    got = obs.get("parts") or []
    if len(got) != len(v["parts"]):
        return "count"
    kinds = set()
    for a, b in zip(v["parts"], got):
        if a["body"] != b["body"]:
            kinds.add("empty_became_crlf" if a["body"] == [] and b["body"] == [13, 10] else "other")
    return "+".join(sorted(kinds)) or "same"


def signature(clauses, e):
    if e["op"] != "multipart":
        return "%s:%s" % (",".join(clauses), e["obs"]["outcome"])
    v = e["value"]
    return "%s:%s:input=%s:diff=%s" % (",".join(clauses), e["obs"]["outcome"], input_tags(v), diff_class(v, e["obs"]) if e["obs"]["outcome"] == "ok" else "-")


def describe(clauses, e):
    if e["op"] != "multipart":
        return {"clauses": clauses, "op": e["op"], "class": e.get("cls"), "value": e.get("value"), "obs": K.short(e["obs"], 200)}
    return {"clauses": clauses, "boundary": e["value"]["boundary"], "parts": K.short(e["value"]["parts"], 300), "parsed": K.short(e["obs"].get("parts"), 300),
            "outcome": e["obs"]["outcome"], "msg": e["obs"].get("msg")}


def run(tier, replay):
    return K.run_codec("C16", "c16", tier, describe, signature,
                       "Gen_Codec(c16): 8 boundary classes x single parts over 18 body classes (lengths 0..3 over CR / LF / dash / letter, CRLF at either end, binary 0..255), all pairs of "
                       "body classes as two parts, 3..8 parts; FormMultipartData::parse(generate(parts, b), b) compared part for part (cases where the boundary occurs in the data are "
                       "outside the precondition and skipped by the spec); three corrupted bodies must be rejected; the boundary parameter as browsers send it",
                       ["the boundary is passed to generate/parse exactly as the caller would pass it (the library uses one string as opening, separating and closing delimiter)"], extra_cases=R.c16)
