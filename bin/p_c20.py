"""C20 — library parsers report errors instead of panicking."""
import json
import re
import time
import vlib


def signature(e):
    loc = re.sub(r":\d+$", "", e.get("loc", ""))      # file without the line number: stable under unrelated edits
    msg = e.get("msg", "")
    kind = "unwrap_none" if "Option::unwrap()" in msg else "unwrap_err" if "Result::unwrap()" in msg else "index" if "index" in msg or "out of range" in msg or "out of bounds" in msg \
        else "overflow" if "overflow" in msg else "char_boundary" if "char boundary" in msg else "utf8" if "utf" in msg.lower() else "other"
    return "C20.%s:%s:%s:%s" % (e["outcome"], e["ep"], loc, kind)


def run(tier, replay):
    t0 = time.time()
    ev = vlib.new_evidence("C20", tier, "exploration")
    vlib.build_harness()
    with vlib.Scratch("c20") as sc:
        cases = sc.path("cases.ndjson")
        with open(cases, "w") as sink:
            gen = vlib.run_tlc("Gen_Totality", "Gen_Totality" if tier == "quick" else "Gen_Totality_thorough", workers=4, heap="4g", case_sink=sink)
        if not gen.ok:
            raise vlib.ToolError("Gen_Totality failed:\n" + gen.out[-2000:])
        trace = sc.path("trace.ndjson")
        vlib.run_harness(["total", "--cases", cases, "--out", trace, "--seed", vlib.seed(), "--random", 60 if tier == "quick" else 2000, "--timeout-ms", 30000], timeout=3000)
        tv = vlib.validate_trace("Trace_Totality", trace, heap="10g")
        verdict = vlib.Verdict("C20")
        if tv.fails:
            want = set(f["i"] for f in tv.fails)
            with open(trace) as fh:
                for n, line in enumerate(fh, 1):
                    if n in want:
                        e = json.loads(line)
                        verdict.reject(signature(e), {"entry_point": e["ep"], "mutation": e["how"], "input_len": e["len"], "input_head": e["head"],
                                                      "outcome": e["outcome"], "panic_at": e.get("loc"), "msg": e.get("msg")})
        per_ep = {}
        with open(trace) as fh:
            for line in fh:
                i = line.find('"ep":"')
                ep = line[i + 6:line.find('"', i + 6)]
                per_ep[ep] = per_ep.get(ep, 0) + 1
        with open(trace) as fh:
            head = [json.loads(next(fh)) for _ in range(2)]
        ev["coverage"] = {
            "evaluations": tv.done[0], "distinct_nontrivial": tv.done[0],
            "states": gen.distinct, "transitions": gen.generated, "traces_validated_against_impl": tv.done[0],
            "abstract_mutations": len(gen.cases), "calls_per_entry_point": per_ep,
            "samples": [{"entry_point": h["ep"], "mutation": h["how"], "input_head": h["head"], "outcome": h["outcome"]} for h in head],
            "rule": "Gen_Totality over Totality.tla: 49 entry points x %d valid seed documents x {identity, truncation at EVERY position, 6 byte classes flipped at EVERY position, "
                    "24 byte classes flipped / inserted at 13 relative positions, deletion, duplicated tail, nesting / long line / repeated delimiter x {10, 1000, 20000}, line-ending variants, the seed or its head repeated 1000x, every number replaced by 32 boundary values} + seeded random "
                    "ASCII and binary strings; every call on its own 2 MiB-stack thread with a 30 s watchdog inside a child process; Trace_Totality accepts only value / error outcomes "
                    "(distinct = every generated document is a different byte string per entry point)" % (2 if tier == "quick" else 4),
        }
        ev["assumptions"] = ["inputs that a &str API cannot express (invalid UTF-8) are not passed to String-taking entry points",
                             "the space is unbounded: exploration of a structured mutation space"]
        ev["wall_s"] = round(time.time() - t0, 1)
        return verdict.finish(ev)
