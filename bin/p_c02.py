"""C02 — static resources: the right file, its exact bytes, its media type."""
import time
import vlib
import static_common as S


def signature(clauses, e):
    q = e["q"]
    return "%s:status=%s:%s" % (",".join(clauses), e["r"].get("status"), e["r"].get("outcome"))


def run(tier, replay):
    t0 = time.time()
    ev = vlib.new_evidence("C02", tier, "model_checking")
    vlib.build_harness()
    with vlib.Scratch("c02") as sc:
        mc = vlib.model_check("MC_Static", "MC_Static", workers=4, heap="4g")
        worlds, cases, ncases, gen = S.generate("c02", 2, sc)
        trace = S.serve(worlds, cases, sc, obs="full", stats=True)
        verdict = vlib.Verdict("C02")
        tv = S.judge("C02", "Trace_Static_c02", trace, verdict, signature)
        rw, rc = sc.path("rworlds.ndjson"), sc.path("rcases.ndjson")
        vlib.run_harness(["random-worlds", "--seed", vlib.seed(), "--count", 8 if tier == "quick" else 80,
                          "--worlds-out", rw, "--cases-out", rc])
        trace2 = S.serve(rw, rc, sc, obs="full", stats=True, tag="r")
        tv2 = S.judge("C02", "Trace_Static_c02", trace2, verdict, signature)
        # wire surface: the same TLC cases through the real binary on loopback sockets (accept loop, pool, real transport)
        trace3 = S.serve(worlds, cases, sc, obs="full", stats=False, tag="w", wire=True)
        tv3 = S.judge("C02", "Trace_Static_c02", trace3, verdict, signature)
        # time as a dimension of the documents: the plain-target cases of one world are served, every file is rewritten in place with
        # new content of the same length and the same modification time, and the same cases are served again by the same server
        rwc = sc.path("rewrite_cases.ndjson")
        import json as _json
        with open(cases) as f, open(rwc, "w") as o:
            for line in f:
                c = _json.loads(line)
                if c["w"] == 23 and c["query"] == "" and c["frag"] == "":
                    o.write(line)
        trace6 = S.serve(worlds, rwc, sc, obs="full", stats=False, tag="rw", rewrite=True)
        S.judge("C02", "Trace_Static_c02", trace6, verdict, signature)
        trace7 = S.serve(worlds, rwc, sc, obs="full", stats=False, tag="rww", wire=True, rewrite=True)
        S.judge("C02", "Trace_Static_c02", trace7, verdict, signature)
        # Router leg: reserved names, built-in pages, unknown paths and the form-get endpoint x nine methods on the menu worlds
        # plus a world holding its own copy of every asset.  C02 clauses go to the verdict (a file of a reserved name in the root
        # is served like any file); the R.* clauses pin behaviour the properties leave free and are reported as notes only.
        rtw, rtc, nrt, genrt = S.generate("router", 2, sc, tag="rt")
        conf = []
        trace4 = S.serve(rtw, rtc, sc, obs="full", stats=True, tag="rt")
        S.judge("C02", "Trace_Static_router", trace4, verdict, signature, conformance=conf)
        trace5 = S.serve(rtw, rtc, sc, obs="full", stats=False, tag="rtw", wire=True)
        S.judge("C02", "Trace_Static_router", trace5, verdict, signature, conformance=conf)
        n4, n5 = S.count_events(trace4), S.count_events(trace5)
        seen = {}
        for c in conf:
            seen.setdefault(",".join(c["clauses"]), []).append(c)
        for k, v in sorted(seen.items()):
            vlib.log("NOTE spec-conformance beyond C02 (Router): %s x%d e.g. %s" % (k, len(v), __import__("json").dumps(v[0])))
        n1, n2 = S.count_events(trace), S.count_events(trace2)
        n3 = S.count_events(trace3)
        ev["coverage"] = {
            "states": mc.distinct + gen.distinct, "transitions": mc.generated + gen.generated,
            "traces_validated_against_impl": n1["Serve"] + n2["Serve"] + n3["Serve"] + n4["Serve"] + n5["Serve"], "wire_requests": n3["Serve"] + n5["Serve"],
            "spec_cases_replayed": ncases + nrt, "random_world_requests": n2["Serve"],
            "router_requests": n4["Serve"] + n5["Serve"], "router_conformance_rejections": len(conf),
            "router_conformance_clauses": sorted(seen),
            "fs_model_checks_against_os": n1["Stat"] + n2["Stat"], "worlds": n1["Mount"] + n2["Mount"],
            "samples": S.sample_events(trace, 3),
            "rule": "[file modification times spread over every month, year turns, leap days, the epoch, 2^31 / 2^32 s, 2100] Gen_Static(c02): every path derived from the 3 menu worlds (each node, +/, +/nx, near-miss name, extra slash, "
                    ".html stem, through links to directories) x 4 query/fragment forms on the production entry; seeded random worlds "
                    "(non-ASCII names, sizes around 8192/10000); each response judged by C02Violations (status, exact bytes, Content-Length, Content-Type, 404 body)",
        }
        ev["assumptions"] = ["file contents are defined by the spec pattern (all 256 byte values)",
                             "MIME table transcribed from the pinned src/mime_type (spec/MimeTable.tla)",
                             "Fs!Resolve validated against the OS on every path of the run"]
        ev["wall_s"] = round(time.time() - t0, 1)
        return verdict.finish(ev)
