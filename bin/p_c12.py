"""C12 — effective settings: command line over config file over environment over defaults (wire: real start-ups)."""
import json
import time
import vlib


def run(tier, replay):
    t0 = time.time()
    ev = vlib.new_evidence("C12", tier, "model_checking")
    vlib.build_harness()
    vlib.build_rws_binary()
    with vlib.Scratch("c12") as sc:
        mc = vlib.model_check("MC_Config", "MC_Config_pinned", workers=2, heap="2g")
        vlib.model_check("MC_Config", "MC_Config_file_after_cli", expect_violation=True, workers=2, heap="2g")
        vlib.model_check("MC_Config", "MC_Config_defaults_unconditional_last", expect_violation=True, workers=2, heap="2g")
        cases = sc.path("cases.ndjson")
        with open(cases, "w") as sink:
            gen = vlib.run_tlc("Gen_Config", "Gen_Config", workers=2, heap="2g", case_sink=sink)
        if not gen.ok:
            raise vlib.ToolError("Gen_Config failed:\n" + gen.out[-2000:])
        trace = sc.path("trace.ndjson")
        vlib.run_harness(["wire-config", "--cases", cases, "--out", trace, "--scratch", sc.path("wire"), "--bin", vlib.RWS_BIN,
                          "--parallel", 8], timeout=3000)
        tv = vlib.validate_trace("Trace_Config", trace, heap="4g")
        verdict = vlib.Verdict("C12")
        events = vlib.read_ndjson(trace)
        for f in tv.fails:
            e = events[f["i"] - 1]
            if not e.get("started") and not e.get("control_started"):
                # neither the case nor its command-line-only control started: the environment, not C12
                raise vlib.ToolError("a server did not start (not a verdict on C12): %s" % json.dumps(e)[:1500])
            def srcs(s):
                return "".join(x[0] for x in ("env", "file", "cli") if s in (e["given"][x] or {}))
            sig = "%s:focus=%s" % (",".join(sorted(f["props"])), "+".join("%s[%s]" % (s, srcs(s)) for s in e["focus"]))
            verdict.reject(sig, {"clauses": sorted(f["props"]), "given": e["given"], "observed": e["obs"], "rendered": e["rendered"]})
        observed = sum(1 for e in events for v in e["obs"].values() if v != "n/a")
        ev["coverage"] = {
            "states": mc.distinct + gen.distinct, "transitions": mc.generated + gen.generated,
            "traces_validated_against_impl": len(events), "launches": len(events), "setting_observations": observed,
            "samples": [{"given": events[5]["given"], "observed": events[5]["obs"]}],
            "rule": "MC_Config: the four-step fold equals Effective for all pairs of settings x all subsets of sources (two spec mutants refuted); Gen_Config: 11 settings x 8 subsets of "
                    "{environment, rws.config.toml, command line} (booleans over every value assignment) x 4 file styles (plain, comments+single quotes, reordered+spaces, tight: glued comments, no blanks, CRLF), short/long flag, hyphen / [cors] table / root key spellings, "
                    "full configurations from every non-empty subset of sources, and the allow-all switch paired with every other CORS setting across sources; each is a real start of the "
                    "binary probed for bound address, thread count line, buffer echo and CORS headers",
        }
        ev["assumptions"] = ["127.0.0.1-4 are bindable loopback addresses", "the CORS lists are observable only while the effective allow-all switch is off",
                             "thread count is read from the start-up line"]
        ev["wall_s"] = round(time.time() - t0, 1)
        return verdict.finish(ev)
