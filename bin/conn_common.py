"""Shared pipeline of the connection-level checks (C04, C05, C10): Gen_Conn -> rwsv conn (child processes) -> Trace_Conn."""
import json
import os
import vlib


def generate(mode, sc, tag=""):
    cases_path = sc.path("conn_cases_%s%s.ndjson" % (mode, tag))
    with open(cases_path, "w") as sink:
        r = vlib.run_tlc("Gen_Conn", "Gen_Conn_" + mode, workers=4, timeout=3000, heap="8g", case_sink=sink)
    if not r.ok:
        raise vlib.ToolError("Gen_Conn(%s) failed:\n%s" % (mode, r.out[-3000:]))
    return cases_path, len(r.cases), r


def concat(paths, out):
    with open(out, "w") as o:
        for p in paths:
            with open(p) as f:
                for line in f:
                    o.write(line)
    return out


def run_conn(cases_path, sc, obs="head", tag=""):
    trace = sc.path("conn_trace%s.ndjson" % tag)
    scratch = sc.path("conn_site%s" % tag)
    os.makedirs(scratch, exist_ok=True)
    vlib.run_harness(["conn", "--cases", cases_path, "--out", trace, "--scratch", scratch, "--obs", obs], timeout=3000)
    return trace


def mut_sig(b):
    """signature of the abstract case: seed + mutation ops (role-level) + app + transport script kind"""
    muts = "+".join("%s@%s" % (m["op"], m["at"]) for m in b.get("muts", []))
    return "%s[%s]:app=%s:script=%s" % (b.get("seed"), muts, b.get("app"), b.get("script", {}).get("kind"))


def judge(prop, cfg, trace, verdict, signature, heap="8g"):
    tv = vlib.validate_trace("Trace_Conn", trace, cfg=cfg, heap=heap)
    if tv.fails:
        # index Begin / End events of the failing connections
        want = set(f["conn"] for f in tv.fails)
        begins, ends = {}, {}
        with open(trace) as fh:
            for line in fh:
                if '"ev":"Begin"' in line or '"ev":"End"' in line:
                    e = json.loads(line)
                    if e.get("i") in want:
                        (begins if e["ev"] == "Begin" else ends)[e["i"]] = e
        for f in tv.fails:
            mine = sorted(p for p in f["props"] if p.startswith(prop + "."))
            if not mine:
                continue
            b, e = begins.get(f["conn"], {}), ends.get(f["conn"], {})
            r = e.get("r", {})
            doc = b.get("doc")
            verdict.reject(signature(mine, b, e), {"clauses": mine, "case": mut_sig(b), "verdict_class": b.get("verdict"),
                                                  "outcome": e.get("outcome"), "panic_at": e.get("loc"), "msg": (e.get("msg") or "")[:200],
                                                  "status": r.get("status"), "conn": f["conn"]})
    return tv


def count(trace):
    n = {"Begin": 0, "Write": 0, "End": 0, "abort": 0, "panic": 0}
    with open(trace) as fh:
        for line in fh:
            if '"ev":"Begin"' in line:
                n["Begin"] += 1
            elif '"ev":"Write"' in line:
                n["Write"] += 1
            elif '"ev":"End"' in line:
                n["End"] += 1
                if '"outcome":"abort"' in line:
                    n["abort"] += 1
                elif '"outcome":"panic"' in line:
                    n["panic"] += 1
    return n


def samples(trace, k=3):
    out = []
    with open(trace) as fh:
        for line in fh:
            if '"ev":"Begin"' in line:
                b = json.loads(line)
                out.append({"case": mut_sig(b), "verdict_class": b.get("verdict"), "request_bytes": b.get("req_len")})
                if len(out) >= k:
                    break
    return out
