"""C13 — the server never modifies the files it serves (wire: real binary under strace + manifests before/after)."""
import json
import time
import vlib
import conn_common as C
import wire_common as W


def run(tier, replay):
    t0 = time.time()
    ev = vlib.new_evidence("C13", tier, "model_checking")
    vlib.build_harness()
    vlib.build_rws_binary()
    with vlib.Scratch("c13") as sc:
        mc = vlib.model_check("MC_Server", "MC_Server", workers=4, heap="4g")
        paths, total = [], 0
        for mode in (["single"] if tier == "quick" else ["single", "scripts"]):
            p, n, g = C.generate(mode, sc)
            paths.append(p); total += n
        cases = C.concat(paths, sc.path("all_cases.ndjson"))
        trace = sc.path("fs_trace.ndjson")
        vlib.run_harness(["wire-fs", "--cases", cases, "--out", trace, "--scratch", sc.path("wire"), "--bin", vlib.RWS_BIN], timeout=3000)
        d = W.instance(sc, "TraceServer_fs", "Trace_Server", 8, 4)
        tv = vlib.validate_trace("TraceServer_fs", trace, spec_dir=d, heap="8g")
        verdict = vlib.Verdict("C13")
        events = vlib.read_ndjson(trace)
        for f in tv.fails:
            e = events[f["i"] - 1]
            mine = sorted(p for p in f["props"] if p.startswith("C13.") or p.startswith("C04."))
            if e["ev"] == "Syscall":
                sig = "%s:%s:%s" % (",".join(mine), e["call"], "+".join(x for x in e["flags"] if x in ("O_WRONLY", "O_RDWR", "O_CREAT", "O_TRUNC", "O_APPEND")))
                verdict.reject(sig, {"clauses": mine, "call": e["call"], "path": e["path"], "flags": e["flags"]})
            elif e["ev"] == "Manifest":
                verdict.reject("C13.manifest_changed", {"clauses": mine, "added": f.get("added"), "removed": f.get("removed")})
            else:
                verdict.reject(",".join(mine) + ":" + e["ev"], {"clauses": mine, "event": e})
        nsys = sum(1 for e in events if e["ev"] == "Syscall")
        nman = [len(e["entries"]) for e in events if e["ev"] == "Manifest"]
        ev["coverage"] = {
            "states": mc.distinct, "transitions": mc.generated,
            "traces_validated_against_impl": total + 60, "requests_sent": total + 60, "file_system_calls_judged": nsys, "manifest_entries": nman,
            "samples": [e for e in events if e["ev"] == "Syscall"][:2] + [{"manifest_entry": events[0]["entries"][0]}],
            "rule": "[failure paths: abandoned transfers, resets after sending, 1100 / 2000 ranges of a 2 MiB file] MC_Server: EnvFsUnchanged on the design; wire: every single mutation of the %d seed requests of Mutation.tla (incl. PUT/DELETE/PATCH/POST uploads with "
                    "path-like names) plus 10 targets x 6 methods (built-in asset names, a dangling link) against the real binary under strace -f; Trace_Server has no action for an "
                    "open with a write/create flag or any unlink/rename/mkdir/chmod/... call, and the manifest (paths, kinds, sizes, hashes, link targets) of the tree and its "
                    "surroundings after the campaign must equal the one before" % 31,
        }
        ev["assumptions"] = ["strace -f -e trace=%file,%desc sees every path-naming system call of the server process", "paths under /dev, /proc, /sys are not files of the tree"]
        ev["wall_s"] = round(time.time() - t0, 1)
        return verdict.finish(ev)
