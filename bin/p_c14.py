"""C14 — request parsing accepts exactly well-formed requests and round-trips them."""
import codec_common as K
import codec_random as R


def value_class(v):
    tags = []
    if any(": " in h["v"] for h in v.get("headers", [])):
        tags.append("value_has_colon_space")
    if any(h["v"] != h["v"].strip() for h in v.get("headers", [])):
        tags.append("value_has_outer_blanks")
    if any(h["v"] == "" for h in v.get("headers", [])):
        tags.append("empty_value")
    return "+".join(tags) or "plain"


def signature(clauses, e):
    if e["op"] == "req_line":
        return "%s:%s" % (",".join(clauses), e["obs"]["outcome"])
    return "%s:%s:%s" % (",".join(clauses), e["obs"]["outcome"], value_class(e["value"]))


def describe(clauses, e):
    if e["op"] == "req_line":
        return {"clauses": clauses, "request_line": e.get("text") or e.get("raw"), "class": e["cls"], "outcome": e["obs"]["outcome"]}
    return {"clauses": clauses, "value": K.short(e["value"], 300), "parsed": K.short(e["obs"].get("parsed"), 300), "outcome": e["obs"]["outcome"]}


def run(tier, replay):
    return K.run_codec("C14", "c14", tier, describe, signature,
                       "Gen_Codec(c14): 9 methods x 4 versions; 7 target classes x header lists (0, 1, 3, duplicate names, 50) with values containing ':' / ': ' / '=' / blanks / empty / "
                       "quotes / non-ASCII; bodies (empty, text, beginning with CRLF, containing CRLF CRLF, NUL, all 256 values); Request::parse(Request::generate(r)) compared field by "
                       "field, header lookup under three spellings; 60 request-line near misses classed valid / unknown method / unknown version / incomplete / not UTF-8 / free",
                       ["strings travel unchanged through the harness (JSON); bodies as byte arrays"], extra_cases=R.c14)
