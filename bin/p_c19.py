"""C19 — JSON serialisation round-trips and is valid JSON."""
import codec_common as K
import codec_random as R


def non_ascii(v):
    if isinstance(v, str):
        return any(ord(c) > 127 for c in v)
    if isinstance(v, list):
        return any(non_ascii(x) for x in v)
    if isinstance(v, dict):
        return any(non_ascii(x) for x in v.values())
    return False


def signature(clauses, e):
    tag = ":non_ascii_string" if non_ascii(e["value"]) else ""
    if e["op"] == "json_array":
        items = e["value"]["items"]
        neg = any(str(x).startswith("-") for x in e.get("text", "").replace("[", ",").replace("]", ",").split(",") if x.strip())
        return "%s:%s:ty=%s:n=%s%s" % (",".join(clauses), e["obs"]["outcome"], e["ty"], "0" if not items else "1" if len(items) == 1 else "many", (":negative" if neg else "") + tag)
    return "%s:%s/%s%s" % (",".join(clauses), e["obs"]["outcome"], e["ind"]["outcome"], tag)


def describe(clauses, e):
    return {"clauses": clauses, "op": e["op"], "ty": e.get("ty"), "value": K.short(e["value"], 260), "text": e.get("text", "")[:260].replace("\r\n", " "),
            "parsed_back": K.short(e["obs"], 200), "independent": K.short(e["ind"], 200)}


def run(tier, replay):
    return K.run_codec("C19", "c19", tier, describe, signature,
                       "Gen_Codec(c19): an object with one optional field of every kind (string, boolean, integer, float, nested object with optional nested leaf, array of objects, "
                       "array of integers, array of strings): all 256 presence subsets; every integer of {0, +-1, i8..i128 / u8..u64 extremes, +-(2^53+1)} and every float of "
                       "{0, -0, 0.1, 1e-7, 1e21, 5e-324, f64::MAX, 17-digit values} alone and among the other fields; string classes; empty / 1 / 64-element arrays; typed arrays of "
                       "i8..i128, u8..u128, f32, f64, string, bool, null incl. extremes and negatives; to_json -> library parse and -> serde_json, both compared with the value",
                       ["serde_json (no arbitrary precision) is the independent parser; integers beyond 64 bits are not compared with it",
                        "floats are compared by IEEE-754 bit pattern after parsing; the RFC 8259 grammar itself is serde_json's, not a TLA+ recogniser"], extra_cases=R.c19)
