"""C11 — cross-origin grants follow the configuration exactly."""
import time
import vlib


def signature(clauses, q):
    return "%s:%s:preflight=%s" % (",".join(clauses), q["method"], q["preflight"])


def run(tier, replay):
    t0 = time.time()
    ev = vlib.new_evidence("C11", tier, "model_checking")
    vlib.build_harness()
    with vlib.Scratch("c11") as sc:
        mc = vlib.model_check("MC_Cors", "MC_Cors", workers=2, heap="2g")
        vlib.model_check("MC_Cors", "MC_Cors_impl", expect_violation=True, workers=2, heap="2g")
        cases = sc.path("cases.ndjson")
        with open(cases, "w") as sink:
            gen = vlib.run_tlc("Gen_Cors", "Gen_Cors" if tier == "quick" else "Gen_Cors_full", workers=4, heap="4g", case_sink=sink)
        if not gen.ok:
            raise vlib.ToolError("Gen_Cors failed:\n" + gen.out[-2000:])
        trace = sc.path("trace.ndjson")
        vlib.run_harness(["cors", "--cases", cases, "--out", trace, "--scratch", sc.path("site")])
        tv = vlib.validate_trace("Trace_Cors", trace, heap="8g")
        # wire surface: a real server per configuration (the start-up path fills the variables the policy reads)
        wtrace = sc.path("wire_trace.ndjson")
        wcases = sc.path("wire_cases.ndjson")
        with open(cases) as f, open(wcases, "w") as o:
            for n, line in enumerate(f):
                if tier == "thorough" or n % 4 == 0:
                    o.write(line)
        vlib.run_harness(["cors", "--cases", wcases, "--out", wtrace, "--scratch", sc.path("wsite"), "--bin", vlib.build_rws_binary()], timeout=3000)
        tvw = vlib.validate_trace("Trace_Cors", wtrace, heap="8g")
        verdict = vlib.Verdict("C11")
        for t_, tv_ in ((wtrace, tvw),):
            evs = vlib.read_ndjson(t_) if tv_.fails else []
            cfg_ = None
            at = {}
            for i, e in enumerate(evs, 1):
                if e["ev"] == "Config":
                    cfg_ = e["cfg"]
                at[i] = cfg_
            for f in tv_.fails:
                e = evs[f["i"] - 1]
                c = at[f["i"]]
                verdict.reject(signature(sorted(f["props"]), e["q"]),
                               {"surface": "wire", "clauses": sorted(f["props"]), "q": e["q"], "cfg": {k: c[k] for k in ("all", "origins", "creds", "methods", "headers", "maxage")},
                                "access_control_headers": [[h["n"], h["v"]] for h in e["r"]["hs"] if h["nl"].startswith("access-control-")]})
        events = vlib.read_ndjson(trace) if tv.fails else []
        cfg = None
        cfg_at = {}
        for i, e in enumerate(events, 1):
            if e["ev"] == "Config":
                cfg = e["cfg"]
            cfg_at[i] = cfg
        for f in tv.fails:
            e = events[f["i"] - 1]
            c = cfg_at[f["i"]]
            verdict.reject(signature(sorted(f["props"]), e["q"]),
                           {"clauses": sorted(f["props"]), "q": e["q"], "cfg": {k: c[k] for k in ("all", "origins", "creds", "methods", "headers", "maxage")},
                            "access_control_headers": [[h["n"], h["v"]] for h in e["r"]["hs"] if h["nl"].startswith("access-control-")]})
        ev["coverage"] = {
            "states": mc.distinct + gen.distinct, "transitions": mc.generated + gen.generated,
            "traces_validated_against_impl": tv.done[0] + tvw.done[0], "wire_requests": tvw.done[0], "spec_cases_replayed": len(gen.cases),
            "samples": [{"origin": "https://foo.exampl", "configured": ["https://foo.example"], "method": "OPTIONS"}],
            "rule": "MC_Cors: the decision procedure for all configurations over a small alphabet (substring variant refuted); Gen_Cors: %s configurations "
                    "(switch, 0/1/2/4 origins, credentials, method/header lists, max-age) x 25 Origin values (configured, prefixes, suffixes, substrings, case variants, "
                    "empty, joined, unrelated) + absent x {GET, POST, OPTIONS} x with/without preflight headers, through Server::process with the policy in the process "
                    "environment; every response judged by Cors!CorsViolations" % ("a covering subset of the 128" if tier == "quick" else "all 128"),
        }
        ev["assumptions"] = ["the policy is read from RWS_CONFIG_CORS_* at request time (as the server does after start-up)"]
        ev["wall_s"] = round(time.time() - t0, 1)
        return verdict.finish(ev)
