"""C08 — concurrent requests do not influence one another (wire: serial reference on fresh servers vs concurrent rounds)."""
import json
import os
import time
import vlib
import wire_common as W


def run(tier, replay):
    t0 = time.time()
    ev = vlib.new_evidence("C08", tier, "model_checking")
    vlib.build_harness()
    vlib.build_rws_binary()
    with vlib.Scratch("c08") as sc:
        mc = vlib.model_check("MC_Server", "MC_Server", workers=4, heap="4g")
        trace = sc.path("conc_trace.ndjson")
        workers, rounds, width = ("1,2,4,16", 6, 16) if tier == "quick" else ("1,2,3,4,8,16", 40, 32)
        vlib.run_harness(["wire-conc", "--out", trace, "--scratch", sc.path("wire"), "--bin", vlib.RWS_BIN, "--seed", vlib.seed(),
                          "--workers", workers, "--rounds", rounds, "--width", width], timeout=3000)
        d = W.instance(sc, "TraceServer_conc", "Trace_Server", 16, 4)
        tv = vlib.validate_trace("TraceServer_conc", trace, spec_dir=d, heap="8g")
        verdict = vlib.Verdict("C08")
        events = vlib.read_ndjson(trace) if tv.fails else []
        for f in tv.fails:
            e = events[f["i"] - 1]
            sig = "%s:%s" % (",".join(sorted(f["props"])), e.get("name"))
            r = e.get("r", {})
            verdict.reject(sig, {"clauses": sorted(f["props"]), "request": e.get("name"), "workers": e.get("workers"), "round": e.get("round"),
                                 "status": r.get("status"), "body_len": r.get("body_len"), "body": bytes(r.get("body", [])[:200]).decode("latin1")})
        n = {"Serial": 0, "Conc": 0}
        with open(trace) as fh:
            for line in fh:
                for k in n:
                    if '"ev":"%s"' % k in line:
                        n[k] += 1
        ev["coverage"] = {
            "states": mc.distinct, "transitions": mc.generated,
            "traces_validated_against_impl": n["Conc"] + n["Serial"], "serial_references": n["Serial"], "concurrent_responses": n["Conc"],
            "samples": [{"request": "form_post_short", "after": "form_post_long on the same worker", "compared": "status, headers minus Date-Unix-Epoch-Nanos, body (form echoes as line sets)"}],
            "rule": "[clients abandoning a 24 MiB transfer in every second mix; one-at-a-time sweep after the mixes] MC_Server: EnvFsUnchanged (no action writes configuration or file system) for all interleavings, N=2, 5 connections; wire: 24 distinct requests (files incl. 300 KB, "
                    "single/multi ranges, HEAD/OPTIONS, three form endpoints with distinct secrets, 404/400/416) each answered alone by a freshly started server, then multisets of %d "
                    "requests in %d rounds against servers with %s workers (barrier release, long-before-short ordering, staggered arrival); every concurrent response must equal its serial one" % (width, rounds, workers),
        }
        ev["assumptions"] = ["the serial reference is taken from a fresh server per request, so state left by an earlier request cannot enter it",
                             "bodies over 600 bytes are compared by length and FNV-1a hash computed by the projector"]
        ev["wall_s"] = round(time.time() - t0, 1)
        return verdict.finish(ev)
