"""Seeded random abstract values for the library codecs (the code -> spec direction beyond TLC's enumerated classes).
These are inputs only; the judgement of every resulting event is Trace_Codec's."""
import random
import string

PRINTABLE = [chr(c) for c in range(32, 127)]
UNI = ["é", "ß", "ж", "日", "本", "😀", "𝄞", "€", "ñ",
       "ı", "ſ", "ﬁ", "İ", "ɐ", "ǅ", "ŉ", "à", "Å", "†", "😅"]   # case mappings that change the byte length; final bytes 0x85 / 0xA0
TOKEN = string.ascii_letters + string.digits + "-_"


def text(rng, n, alphabet=None, forbid=""):
    alphabet = alphabet or (PRINTABLE + UNI)
    return "".join(c for c in (rng.choice(alphabet) for _ in range(n)) if c not in forbid)


def rbytes(rng, n):
    mode = rng.randrange(4)
    if mode == 0:
        return [rng.randrange(256) for _ in range(n)]
    if mode == 1:
        return [rng.choice([13, 10, 45, 97, 0, 255]) for _ in range(n)]
    if mode == 2:
        return [ord(c) for c in text(rng, n, PRINTABLE)]
    b = [rng.randrange(256) for _ in range(n)]
    return b + rng.choice([[13], [10], [13, 10], [10, 10], []])


def c14(tier, seed):
    rng = random.Random(seed * 7919 + 14)
    out = []
    NAMECH = TOKEN + ".~!#$%&'*+^|`"
    for it in range(150 if tier == "quick" else 6000):
        nh = rng.choice([0, 1, 2, 3, 5, 50])
        if it % 40 == 7:
            nh = rng.choice([100, 129, 257])            # counts around powers of two
        hs = []
        for _ in range(nh):
            v = text(rng, rng.randrange(0, 40))
            if rng.random() < 0.3:
                v = v + rng.choice([": ", ":", "=", " ", ": x: y"]) + text(rng, rng.randrange(0, 5))
            if rng.random() < 0.02:
                v = text(rng, rng.choice([255, 256, 1024, 8193]), PRINTABLE).strip() or "v"     # long values
            hs.append({"n": text(rng, rng.randrange(1, 16), NAMECH if rng.random() < 0.3 else TOKEN) or "x", "v": v})
            if rng.random() < 0.15:
                # the same name again in another spelling (lookup must not depend on the spelling asked for)
                n2 = rng.choice([str.upper, str.lower, str.swapcase, str.title])(hs[-1]["n"])
                hs.insert(rng.randrange(len(hs) + 1), {"n": n2, "v": text(rng, 6, TOKEN)})
        body = rbytes(rng, rng.choice([0, 1, 2, 7, 100, 2000]) if it % 50 != 9 else rng.choice([65535, 65536, 70001]))
        if rng.random() < 0.3:
            # the header names the library itself interprets, with values consistent with the message
            voc = [("Content-Length", str(len(body))), ("Content-Type", rng.choice(["text/plain", "multipart/form-data; boundary=x", "application/x-www-form-urlencoded"])),
                   ("Host", "localhost:7878"), ("Range", "bytes=0-1, 3-"), ("Origin", "https://a.example"), ("Transfer-Encoding", "identity"), ("Connection", "close")]
            for n, v in rng.sample(voc, rng.randrange(1, 4)):
                hs.insert(rng.randrange(len(hs) + 1), {"n": n if rng.random() < 0.7 else n.lower(), "v": v})
        out.append({"kind": "roundtrip", "method": rng.choice(["GET", "HEAD", "POST", "PUT", "DELETE", "CONNECT", "OPTIONS", "TRACE", "PATCH"]),
                    "target": "/" + text(rng, rng.randrange(0, 30), forbid=" "), "version": rng.choice(["HTTP/0.9", "HTTP/1.0", "HTTP/1.1", "HTTP/2.0"]),
                    "headers": hs, "body": body})
    return out


def c15(tier, seed):
    rng = random.Random(seed * 7919 + 15)
    st = [(200, "OK"), (206, "Partial Content"), (404, "Not Found"), (500, "Internal Server Error"), (201, "Created"), (416, "Range Not Satisfiable")]
    out = []
    for _ in range(100 if tier == "quick" else 4000):
        s = rng.choice(st)
        parts = []
        for _ in range(rng.choice([1, 1, 2, 3, 6, 9, 17])):
            b = rbytes(rng, rng.choice([0, 1, 2, 3, 50, 4096]) if rng.random() < 0.97 else rng.choice([65536, 70001]))
            lo = rng.choice([rng.randrange(0, 1000), rng.randrange(0, 1000), 65535, 16777216, 2000000000])    # (TLC integers are 32-bit)
            parts.append({"ct": rng.choice(["text/plain", "image/png", "application/octet-stream", "text/html", "text/plain; charset=utf-8", "Text/HTML", "application/x.y+json"]),
                          "lo": lo, "hi": lo + len(b), "size": 2100000000, "body": b})
        hs = [{"n": "X-" + text(rng, 5, TOKEN), "v": text(rng, rng.randrange(1, 20), PRINTABLE).strip() or "v"} for _ in range(rng.randrange(0, 4))]
        if hs and rng.random() < 0.2:
            hs.insert(rng.randrange(len(hs) + 1), {"n": hs[0]["n"], "v": text(rng, 4, TOKEN)})      # the same name again
        out.append({"kind": "resp", "ser": rng.choice(["assoc", "method"]), "status": s[0], "phrase": s[1], "headers": hs, "parts": parts})
    return out


BCHARS = string.ascii_letters + string.digits + "'()+_,-./:=?"


def c16(tier, seed):
    rng = random.Random(seed * 7919 + 16)
    out = []
    for _ in range(100 if tier == "quick" else 3000):
        bd = text(rng, rng.randrange(1, 70), BCHARS)
        if rng.random() < 0.7:
            bd = "--" + bd
        bd = bd[:70].rstrip()
        parts = []
        for i in range(rng.randrange(1, 9)):
            hs = [{"n": "Content-Disposition", "v": 'form-data; name="f%d"' % i}] if rng.random() < 0.8 else []     # not every part has one
            for _ in range(rng.randrange(0 if hs else 1, 4)):
                hs.append({"n": "X-" + text(rng, 4, TOKEN), "v": text(rng, rng.randrange(1, 12), string.ascii_letters + string.digits + "/;=.")})
            parts.append({"headers": hs, "body": rbytes(rng, rng.choice([0, 1, 2, 3, 4, 100, 65536 if tier == "thorough" and rng.random() < 0.05 else 900]))})
        out.append({"kind": "multipart", "boundary": bd, "parts": parts})
    return out


def c17(tier, seed):
    rng = random.Random(seed * 7919 + 17)
    out = []
    alpha = PRINTABLE + UNI + ["%", "&", "=", "+", "?", "#", "/"] * 2
    for _ in range(300 if tier == "quick" else 10000):
        keys = set()
        pairs = []
        for _ in range(rng.randrange(0, 21)):
            k = text(rng, rng.randrange(1, 8), alpha).strip()
            if not k or k in keys:
                continue
            keys.add(k)
            v = text(rng, rng.randrange(1, 12), alpha).strip()
            if v:
                pairs.append([k, v])
            # distinct keys that differ only in letter case are distinct fields
            k2 = k.swapcase()
            if rng.random() < 0.2 and k2 != k and k2 not in keys:
                keys.add(k2)
                pairs.append([k2, text(rng, 4, TOKEN)])
        out.append({"kind": "map", "pairs": pairs})
    return out


def c19(tier, seed):
    rng = random.Random(seed * 7919 + 19)

    def opt(v, none):
        return {"p": True, "v": v} if rng.random() < 0.7 else {"p": False, "v": none}

    def integer():
        bits = rng.choice([7, 15, 31, 63, 64, 100, 126])
        return str(rng.randrange(-(1 << bits), 1 << bits))

    def flt():
        return repr(rng.choice([rng.uniform(-1e6, 1e6), rng.uniform(-1, 1), rng.choice([-1, 1]) * rng.random() * 10 ** rng.randrange(-300, 300),
                                float(rng.randrange(-1000, 1000)), rng.choice([-1, 1]) * rng.random() * 10 ** rng.randrange(-12, -3)]))

    def s():
        n = rng.randrange(0, 12) if rng.random() < 0.97 else rng.choice([255, 256, 257, 4096, 5000])
        return text(rng, n, [c for c in PRINTABLE if c not in '"\\'])

    def count():
        # the count principle for every repeated structure, at every position
        return rng.choice([0, 0, 1, 2, 3, 10, 31, 32, 33, 40, 64, 65, 100]) if rng.random() < 0.5 else rng.choice([0, 1, 2, 3])

    def leaf():
        chain = [{"name": s(), "n": integer()} for _ in range(rng.choice([0, 0, 0, 1, 2, 3]))]
        tags = {"p": True, "v": [integer() for _ in range(rng.choice([0, 1, 2, 3]))]} if rng.random() < 0.4 else {"p": False, "v": []}
        return {"name": s(), "n": integer(), "chain": chain, "tags": tags}
    noleaf = {"p": False, "v": {"name": "", "n": "0", "chain": [], "tags": {"p": False, "v": []}}}
    out = []
    for _ in range(150 if tier == "quick" else 6000):
        inner = {"label": s(), "flag": rng.choice(["true", "false"]), "leaf": {"p": True, "v": leaf()} if rng.random() < 0.5 else noleaf,
                 "items": {"p": True, "v": [leaf() for _ in range(count())]} if rng.random() < 0.5 else {"p": False, "v": []}}
        out.append({"kind": "json_object", "s": opt(s(), ""), "b": opt(rng.choice(["true", "false"]), ""), "i": opt(integer(), ""), "f": opt(flt(), ""),
                    "obj": {"p": True, "v": inner} if rng.random() < 0.6 else {"p": False, "v": {"label": "", "flag": "false", "leaf": noleaf, "items": {"p": False, "v": []}}},
                    "objs": opt([leaf() for _ in range(count())], []),
                    "ints": opt([integer() for _ in range(count())], []),
                    "strs": opt([s() for _ in range(count())], [])})
    lim = {"i8": 7, "i16": 15, "i32": 31, "i64": 63, "i128": 127, "u8": 8, "u16": 16, "u32": 32, "u64": 64, "u128": 128}
    for _ in range(100 if tier == "quick" else 3000):
        ty = rng.choice(list(lim) + ["f64", "f32", "string", "bool"])
        n = rng.choice([0, 1, 2, 5, 64])
        if ty in lim:
            b = lim[ty]
            items = [str(rng.randrange(0, 1 << b) if ty[0] == "u" else rng.randrange(-(1 << b), 1 << b)) for _ in range(n)]
        elif ty in ("f64", "f32"):
            # every magnitude class in both signs: tiny and huge values are where writers switch notation
            items = [flt() if ty == "f64" else
                     repr(rng.choice([float(rng.randrange(-1000, 1000)) / 8, rng.choice([-1, 1]) * rng.random() * 10 ** rng.randrange(-30, 30)]))
                     for _ in range(n)]
        elif ty == "string":
            items = [s() for _ in range(n)]
        else:
            items = [rng.choice(["true", "false"]) for _ in range(n)]
        out.append({"kind": "json_array", "ty": ty, "items": items})
    return out
