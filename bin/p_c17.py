"""C17 — form and query decoding returns the submitted fields."""
import codec_common as K
import codec_random as R


def char_class(pairs):
    s = "".join(k + v for k, v in pairs)
    tags = []
    import re
    if re.search(r"%[0-9A-Fa-f]{2}", s):
        tags.append("percent_hex_in_data")
    elif "%" in s:
        tags.append("percent_in_data")
    if "+" in s:
        tags.append("plus")
    if " " in s:
        tags.append("space")
    if any(ord(c) > 127 for c in s):
        tags.append("non_ascii")
    for c in "&=?#/;:~\"'":
        if c in s:
            tags.append("reserved")
            break
    return "+".join(tags) or "plain"


def signature(clauses, e):
    return "%s:%s:%s" % (",".join(clauses), e["obs"]["outcome"], char_class(e["value"]["pairs"]))


def describe(clauses, e):
    return {"clauses": clauses, "leg": e.get("leg"), "pairs": K.short(e["value"]["pairs"], 200), "decoded": K.short(e["obs"].get("pairs"), 200), "outcome": e["obs"]["outcome"]}


def run(tier, replay):
    return K.run_codec("C17", "c17", tier, describe, signature,
                       "Gen_Codec(c17): names and values over 28 atoms (letters, digits, hex letters, space, % & = + ? # / ; : ~ quotes, %2 %25 %3A %zz, non-ASCII, astral) and their "
                       "two-atom concatenations, one and two pairs, maps of 0 / 3 / 20 pairs; each map goes through URL::build_query -> parse_query, FormUrlEncoded::generate -> parse, "
                       "and the two echo endpoints through Server::process; decoded pairs compared as sets",
                       ["echo bodies are split mechanically at CRLF and the first ' is '"], extra_cases=R.c17)
