"""Wire-level legs: the real rws binary over loopback sockets, validated by Trace_Server / Trace_Config."""
import json
import os
import random
import vlib


def instance(sc, name, module, n, maxconn, extra_cfg=""):
    d = sc.path(name)
    os.makedirs(d, exist_ok=True)
    open(os.path.join(d, name + ".tla"), "w").write("---- MODULE %s ----\nEXTENDS %s\n====\n" % (name, module))
    open(os.path.join(d, name + ".cfg"), "w").write(
        "SPECIFICATION TSpec\nCONSTANTS\n  N = %d\n  MaxConn = %d\n  Guarded = TRUE\nINVARIANT Done ServerSafety\nPOSTCONDITION AllConsumed\nCHECK_DEADLOCK FALSE\n%s" % (n, maxconn, extra_cfg))
    return d


def run_histories(sc, tier, verdict):
    vlib.build_rws_binary()
    cases = sc.path("hist_cases.ndjson")
    with open(cases, "w") as sink:
        gen = vlib.run_tlc("Gen_Server", "Gen_Server" if tier == "quick" else "Gen_Server_thorough", workers=2, heap="2g", case_sink=sink)
    if not gen.ok:
        raise vlib.ToolError("Gen_Server failed:\n" + gen.out[-2000:])
    rng = random.Random(vlib.seed())
    extra = []
    # (one history of several hundred connections also in the quick tier: a leak of one slot / descriptor per bad connection needs that many)
    for n, length in ([(2, 12), (4, 20), (1, 6), (2, 300)] if tier == "quick" else [(n, l) for n in (1, 2, 4, 8) for l in (10, 40, 150)] + [(4, 600), (16, 400)]):
        extra.append({"n": n, "hist": [rng.choice(["valid", "bad", "internal", "close", "bad", "close"]) for _ in range(length)]})
    # the same kinds of history against a server on the IPv6 loopback (peer addresses print and parse differently there)
    extra.append({"n": 2, "hist": ["valid", "bad", "internal", "close", "valid", "bad", "close", "valid"], "ip6": True})
    extra.append({"n": 1, "hist": ["valid", "valid"], "ip6": True})
    # extreme but satisfiable answers among ordinary requests (length of the file times number of ranges beyond 2^31)
    extra.append({"n": 2, "hist": ["valid", "heavy", "valid", "bad", "heavy", "valid"]})
    with open(cases, "a") as f:
        for e in extra:
            f.write(json.dumps(e) + "\n")
    trace = sc.path("hist_trace.ndjson")
    vlib.run_harness(["wire-history", "--cases", cases, "--out", trace, "--scratch", sc.path("wire"), "--bin", vlib.RWS_BIN], timeout=3000)
    # split the trace by pool size (N is a constant of Server)
    by_n, cur = {}, None
    with open(trace) as fh:
        for line in fh:
            e = json.loads(line)
            if e["ev"] == "Start":
                cur = e["n"]
            by_n.setdefault(cur, []).append(line)
    histories = connections = 0
    sample = None
    for n, lines in sorted(by_n.items()):
        name = "TraceServer_n%d" % n
        d = instance(sc, name, "Trace_Server", n, 1000)
        tpath = os.path.join(d, "trace.ndjson")
        open(tpath, "w").writelines(lines)
        tv = vlib.validate_trace(name, tpath, spec_dir=d, heap="4g")
        events = [json.loads(x) for x in lines]
        histories += sum(1 for e in events if e["ev"] == "Start")
        connections += sum(1 for e in events if e["ev"] in ("Conn", "Probe")) + sum(e.get("sent", 0) for e in events if e["ev"] == "Burst")
        if sample is None:
            sample = [e for e in events[:8]]
        for f in tv.fails:
            if any(p.startswith("TOOL.") for p in f["props"]):
                raise vlib.ToolError("Trace_Server model error: %s" % json.dumps(f)[:800])
            # the history this event belongs to
            start = max(i for i, e in enumerate(events[:f["i"]]) if e["ev"] == "Start")
            sig = "wire:%s:%s" % (",".join(sorted(f["props"])), f.get("flavour", f.get("ev")))
            verdict.reject(sig, {"leg": "wire", "n": n, "history": events[start].get("history"), "event": events[f["i"] - 1], "clauses": sorted(f["props"])})
    return {"histories": histories, "connections": connections, "sample": sample}


def run_fixed_histories(sc, hist_cases, verdict, as_prop):
    """A fixed list of wire histories judged by Trace_Server; unanswered connections are reported under `as_prop`
    (C04 uses this for the address-family dimension: every connection is answered also on the IPv6 loopback)."""
    vlib.build_rws_binary()
    cases = sc.path("fixed_hist_cases.ndjson")
    vlib.write_ndjson(cases, hist_cases)
    trace = sc.path("fixed_hist_trace.ndjson")
    vlib.run_harness(["wire-history", "--cases", cases, "--out", trace, "--scratch", sc.path("wire_fixed"), "--bin", vlib.RWS_BIN], timeout=1200)
    by_n, cur = {}, None
    with open(trace) as fh:
        for line in fh:
            e = json.loads(line)
            if e["ev"] == "Start":
                cur = e["n"]
            by_n.setdefault(cur, []).append(line)
    conns = 0
    for n, lines in sorted(by_n.items()):
        name = "TraceServerFixed_n%d" % n
        d = instance(sc, name, "Trace_Server", n, 1000)
        tpath = os.path.join(d, "trace.ndjson")
        open(tpath, "w").writelines(lines)
        tv = vlib.validate_trace(name, tpath, spec_dir=d, heap="2g")
        events = [json.loads(x) for x in lines]
        conns += sum(1 for e in events if e["ev"] in ("Conn", "Probe"))
        for f in tv.fails:
            if any(p.startswith("TOOL.") for p in f["props"]):
                raise vlib.ToolError("Trace_Server model error: %s" % json.dumps(f)[:800])
            start = max(i for i, e in enumerate(events[:f["i"]]) if e["ev"] == "Start")
            clauses = sorted(p.replace("C06.", as_prop + ".wire_") for p in f["props"])
            verdict.reject("%s:%s" % (",".join(clauses), f.get("flavour", f.get("ev"))),
                           {"leg": "wire", "n": n, "history": events[start].get("history"), "event": events[f["i"] - 1], "clauses": clauses})
    return conns
